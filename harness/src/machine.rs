//! RV32IM reference machine over the harness AST, written from the unprivileged
//! specification, plus the frame shadow state the monitors need.

use crate::ast::*;
use crate::rng::Rng;
use std::collections::HashMap;

#[derive(Clone, Debug, PartialEq, Eq)]
pub enum Stop {
    Exit(u32),
    StepCap,
    /// the program left the supported subset / did something a real machine would trap on
    Fault(String),
}

#[derive(Clone, Debug, PartialEq, Eq)]
pub enum Kind {
    Normal,
    Branch { taken: bool },
    Jump,
    Call { target: usize, label: String },
    Ret { matched: bool },
    IndirectJump,
    Ecall { num: u32, exit: bool, known: bool },
}

#[derive(Clone, Debug)]
pub struct Event {
    pub idx: usize,
    pub step: u64,
    pub kind: Kind,
    /// registers read (architecturally), with the values read
    pub reads: Vec<(Reg, u32)>,
    /// register written, with the new value (x0 writes are dropped)
    pub write: Option<(Reg, u32)>,
    /// further registers written (ecall results)
    pub extra_writes: Vec<(Reg, u32)>,
    pub mem_read: Option<(u32, u32)>,
    pub mem_write: Option<(u32, u32, u32)>,
    pub next: Option<usize>,
    pub stop: Option<Stop>,
    /// frame ids before / after the instruction
    pub frame_before: usize,
    pub frame_after: usize,
}

#[derive(Clone, Debug)]
pub struct Frame {
    pub id: usize,
    pub entry_x: [u32; 32],
    /// label the call named (None for the program itself)
    pub label: Option<String>,
    /// instruction index of the first instruction of the callee (0 for the program)
    pub entry_idx: usize,
    /// index of the calling `jal` (usize::MAX for the program)
    pub call_idx: usize,
    pub call_step: u64,
    pub depth: usize,
}

/// What ecalls do, for the numbers whose RARS meaning is unambiguous.
/// (reads, writes, exits)
/// Environment calls of RARS that work on integer registers only, written from the RARS help
/// ("Syscalls" table), independently of the analyzer's table: (registers read, registers written, exits).
/// Services that write memory through a pointer argument (8, 17, 54, 63) and the floating-point ones
/// are left out of the generated programs.
pub fn ecall_table(num: u32) -> Option<(&'static [Reg], &'static [Reg], bool)> {
    Some(match num {
        1 | 4 | 11 | 32 | 34 | 35 | 36 | 57 => (&[10], &[], false),
        5 | 12 => (&[], &[10], false),
        9 | 41 | 50 => (&[10], &[10], false),
        10 => (&[], &[], true),
        30 => (&[], &[10, 11], false),
        31 | 33 => (&[10, 11, 12, 13], &[], false),
        40 | 55 | 56 | 59 => (&[10, 11], &[], false),
        42 | 1024 => (&[10, 11], &[10], false),
        // InputDialogInt: message in a0; value in a0, status in a1
        51 => (&[10], &[10, 11], false),
        // InputDialogFloat / InputDialogDouble: message in a0; value in fa0, status in a1 (only used by a
        // directed family of C01: the analyzer's table does not list them)
        52 | 53 => (&[10], &[11], false),
        62 | 64 => (&[10, 11, 12], &[10], false),
        93 => (&[10], &[], true),
        _ => return None,
    })
}

pub const KNOWN_ECALLS: [u32; 28] = [1, 4, 5, 9, 10, 11, 12, 30, 31, 32, 33, 34, 35, 36, 40, 41, 42, 50, 51, 55, 56, 57, 59, 62, 64, 93, 1024, 1024];

pub struct Machine<'a> {
    pub flat: &'a Flat,
    pub x: [u32; 32],
    pub pc: usize,
    mem: HashMap<u32, u8>,
    mem_seed: u64,
    pub csr: HashMap<u32, u32>,
    pub steps: u64,
    pub step_cap: u64,
    pub frames: Vec<Frame>,
    next_frame_id: usize,
    input: Rng,
    pub stopped: Option<Stop>,
    /// treat `ret` as a plain indirect jump (single-instruction experiments without frames)
    pub frameless: bool,
}

fn bg(seed: u64, addr: u32) -> u8 {
    let mut z = seed ^ (u64::from(addr).wrapping_mul(0x9E37_79B9_7F4A_7C15));
    z = (z ^ (z >> 30)).wrapping_mul(0xBF58_476D_1CE4_E5B9);
    z = (z ^ (z >> 27)).wrapping_mul(0x94D0_49BB_1331_11EB);
    (z ^ (z >> 31)) as u8
}

impl<'a> Machine<'a> {
    /// A machine with random initial registers and memory derived from `seed`.
    pub fn new(flat: &'a Flat, seed: u64, step_cap: u64) -> Self {
        let mut r = Rng::derive(seed, 0x4d41, 1);
        let mut x = [0u32; 32];
        for xi in x.iter_mut().skip(1) {
            *xi = r.interesting_i32() as u32;
        }
        // sp: 16-byte aligned in the usual stack region
        x[SP as usize] = 0x7ff0_0000 + ((r.below(0xff00) as u32) << 4);
        // ra: some address outside the program (returning from the top level is a fault)
        x[RA as usize] = 0x0000_1000;
        let mut mem = HashMap::new();
        for (a, b) in &flat.data_image {
            mem.insert(*a, *b);
        }
        let frame0 = Frame {
            id: 0,
            entry_x: x,
            label: None,
            entry_idx: 0,
            call_idx: usize::MAX,
            call_step: 0,
            depth: 0,
        };
        Machine {
            flat,
            x,
            pc: 0,
            mem,
            mem_seed: r.next_u64(),
            csr: HashMap::new(),
            steps: 0,
            step_cap,
            frames: vec![frame0],
            next_frame_id: 1,
            input: Rng::derive(seed, 0x494e, 2),
            stopped: None,
            frameless: false,
        }
    }

    pub fn frame(&self) -> &Frame {
        self.frames.last().expect("frame stack never empty")
    }

    pub fn load_byte(&self, a: u32) -> u8 {
        match self.mem.get(&a) {
            Some(b) => *b,
            None => bg(self.mem_seed, a),
        }
    }
    pub fn load(&self, a: u32, bytes: u32) -> u32 {
        let mut v = 0u32;
        for k in 0..bytes {
            v |= u32::from(self.load_byte(a.wrapping_add(k))) << (8 * k);
        }
        v
    }
    pub fn store(&mut self, a: u32, bytes: u32, v: u32) {
        for k in 0..bytes {
            self.mem.insert(a.wrapping_add(k), (v >> (8 * k)) as u8);
        }
    }

    fn set(&mut self, r: Reg, v: u32) -> Option<(Reg, u32)> {
        if r == 0 {
            None
        } else {
            self.x[r as usize] = v;
            Some((r, v))
        }
    }

    fn code_index(&self, addr: u32) -> Option<usize> {
        if addr < TEXT_BASE || (addr - TEXT_BASE) % 4 != 0 {
            return None;
        }
        let i = ((addr - TEXT_BASE) / 4) as usize;
        if i < self.flat.ins.len() {
            Some(i)
        } else {
            None
        }
    }

    /// Execute one instruction.
    pub fn step(&mut self) -> Event {
        let idx = self.pc;
        let fb = self.frame().id;
        let mut ev = Event {
            idx,
            step: self.steps,
            kind: Kind::Normal,
            reads: Vec::new(),
            write: None,
            extra_writes: Vec::new(),
            mem_read: None,
            mem_write: None,
            next: None,
            stop: None,
            frame_before: fb,
            frame_after: fb,
        };
        if let Some(s) = &self.stopped {
            ev.stop = Some(s.clone());
            return ev;
        }
        if idx >= self.flat.ins.len() {
            return self.halt(ev, Stop::Fault("fell-off-end".into()));
        }
        if self.steps >= self.step_cap {
            return self.halt(ev, Stop::StepCap);
        }
        self.steps += 1;
        let ins = self.flat.ins[idx].clone();
        for r in ins.reads() {
            ev.reads.push((r, self.x[r as usize]));
        }
        let mut next = idx + 1;
        match &ins {
            Ins::Alu { op, rd, rs1, rs2 } => {
                let v = op.eval(self.x[*rs1 as usize], self.x[*rs2 as usize]);
                ev.write = self.set(*rd, v);
            }
            Ins::AluI { op, rd, rs1, imm } => {
                let v = op.eval(self.x[*rs1 as usize], *imm as u32);
                ev.write = self.set(*rd, v);
            }
            Ins::Lui { rd, imm } => {
                ev.write = self.set(*rd, (*imm as u32) << 12);
            }
            Ins::La { rd, label } => match self.flat.addr_of_label(label) {
                Some(a) => ev.write = self.set(*rd, a),
                None => return self.halt(ev, Stop::Fault(format!("la-undefined-label:{label}"))),
            },
            Ins::Load { w, rd, off, base } => {
                let a = self.x[*base as usize].wrapping_add(*off as u32);
                let raw = self.load(a, w.bytes());
                let v = match w {
                    LoadW::B => raw as u8 as i8 as i32 as u32,
                    LoadW::Bu => raw & 0xff,
                    LoadW::H => raw as u16 as i16 as i32 as u32,
                    LoadW::Hu => raw & 0xffff,
                    LoadW::W => raw,
                };
                ev.mem_read = Some((a, w.bytes()));
                ev.write = self.set(*rd, v);
            }
            Ins::Store { w, rs2, off, base } => {
                let a = self.x[*base as usize].wrapping_add(*off as u32);
                let v = self.x[*rs2 as usize];
                self.store(a, w.bytes(), v);
                ev.mem_write = Some((a, w.bytes(), v));
            }
            Ins::Branch { c, rs1, rs2, label } => {
                let taken = c.eval(self.x[*rs1 as usize], self.x[*rs2 as usize]);
                ev.kind = Kind::Branch { taken };
                if taken {
                    match self.flat.code_labels.get(label) {
                        Some(t) => next = *t,
                        None => return self.halt(ev, Stop::Fault(format!("branch-to-non-code:{label}"))),
                    }
                }
            }
            Ins::Jal { rd, label } => {
                let Some(t) = self.flat.code_labels.get(label).copied() else {
                    return self.halt(ev, Stop::Fault(format!("jump-to-non-code:{label}")));
                };
                ev.write = self.set(*rd, TEXT_BASE + 4 * (idx as u32 + 1));
                next = t;
                if *rd == RA {
                    ev.kind = Kind::Call { target: t, label: label.clone() };
                    let f = Frame {
                        id: self.next_frame_id,
                        entry_x: self.x,
                        label: Some(label.clone()),
                        entry_idx: t,
                        call_idx: idx,
                        call_step: ev.step,
                        depth: self.frames.len(),
                    };
                    self.next_frame_id += 1;
                    if self.frames.len() > 4096 {
                        return self.halt(ev, Stop::Fault("call-depth".into()));
                    }
                    self.frames.push(f);
                } else {
                    ev.kind = Kind::Jump;
                }
            }
            Ins::Jalr { rd, rs1, imm } => {
                let target = self.x[*rs1 as usize].wrapping_add(*imm as u32) & !1;
                let link = TEXT_BASE + 4 * (idx as u32 + 1);
                if ins.is_ret() && !self.frameless {
                    if self.frames.len() <= 1 {
                        return self.halt(ev, Stop::Fault("ret-from-top-level".into()));
                    }
                    let f = self.frames.pop().expect("frame");
                    let expect = TEXT_BASE + 4 * (f.call_idx as u32 + 1);
                    let matched = target == expect;
                    ev.kind = Kind::Ret { matched };
                    match self.code_index(target) {
                        Some(t) => next = t,
                        None => return self.halt(ev, Stop::Fault("ret-to-non-code".into())),
                    }
                } else {
                    ev.kind = Kind::IndirectJump;
                    ev.write = self.set(*rd, link);
                    match self.code_index(target) {
                        Some(t) => next = t,
                        None => return self.halt(ev, Stop::Fault("indirect-jump-to-non-code".into())),
                    }
                }
            }
            Ins::Ecall => {
                let num = self.x[A7 as usize];
                ev.reads.push((A7, num));
                match ecall_table(num) {
                    Some((reads, writes, exit)) => {
                        for r in reads {
                            ev.reads.push((*r, self.x[*r as usize]));
                        }
                        ev.kind = Kind::Ecall { num, exit, known: true };
                        if exit {
                            let code = if num == 93 { self.x[A0 as usize] } else { 0 };
                            ev.frame_after = self.frame().id;
                            return self.halt(ev, Stop::Exit(code));
                        }
                        for w in writes {
                            let v = self.input.interesting_i32() as u32;
                            self.x[*w as usize] = v;
                            ev.extra_writes.push((*w, v));
                        }
                    }
                    None => {
                        ev.kind = Kind::Ecall { num, exit: false, known: false };
                        return self.halt(ev, Stop::Fault(format!("unknown-ecall:{num}")));
                    }
                }
            }
            Ins::Csrrw { rd, csr, rs1 } => {
                let old = self.csr.get(csr).copied().unwrap_or(0);
                let v = self.x[*rs1 as usize];
                self.csr.insert(*csr, v);
                ev.write = self.set(*rd, old);
            }
            Ins::Csrrs { rd, csr, rs1 } => {
                let old = self.csr.get(csr).copied().unwrap_or(0);
                let v = self.x[*rs1 as usize];
                if *rs1 != 0 {
                    self.csr.insert(*csr, old | v);
                }
                ev.write = self.set(*rd, old);
            }
            Ins::Csrrwi { rd, csr, imm } => {
                let old = self.csr.get(csr).copied().unwrap_or(0);
                self.csr.insert(*csr, (*imm as u32) & 31);
                ev.write = self.set(*rd, old);
            }
        }
        self.pc = next;
        ev.next = Some(next);
        ev.frame_after = self.frame().id;
        ev
    }

    fn halt(&mut self, mut ev: Event, s: Stop) -> Event {
        self.stopped = Some(s.clone());
        ev.stop = Some(s);
        ev
    }
}

// ---------------------------------------------------------------------------------------
// Dynamic convention monitor (premise checker, never a verdict by itself)
// ---------------------------------------------------------------------------------------

#[derive(Clone, Debug, Default)]
pub struct ConvReport {
    /// first few breaches, as short strings ("read-undefined:t0@12")
    pub breaches: Vec<String>,
}

impl ConvReport {
    pub fn ok(&self) -> bool {
        self.breaches.is_empty()
    }
}

struct ConvFrame {
    defined: [bool; 32],
    /// saved register still holds the caller's value (may be stored, not otherwise read)
    original: [bool; 32],
    written: [bool; 32],
    entry_sp: u32,
    entry_x: [u32; 32],
    is_top: bool,
}

/// Watches one execution and records breaches of the calling convention as C04 states it.
pub struct ConvMon {
    stack: Vec<ConvFrame>,
    pub report: ConvReport,
}

impl ConvMon {
    pub fn new(m: &Machine) -> Self {
        let mut defined = [false; 32];
        defined[0] = true;
        defined[A0 as usize] = true;
        defined[A1 as usize] = true;
        // (the environment hands the top-level code a valid stack pointer: it may build a frame below it)
        defined[SP as usize] = true;
        ConvMon {
            stack: vec![ConvFrame {
                defined,
                original: [false; 32],
                written: [false; 32],
                entry_sp: m.x[SP as usize],
                entry_x: m.x,
                is_top: true,
            }],
            report: ConvReport::default(),
        }
    }

    fn breach(&mut self, s: String) {
        // (the breaches that disqualify an execution for C01-C03 are always kept)
        let premise = s.starts_with("sp-not-restored") || s.starts_with("saved-not-restored") || s.starts_with("ret-to-wrong") || s.starts_with("stack-access-outside");
        if self.report.breaches.len() < 8 || (premise && self.report.breaches.len() < 64) {
            self.report.breaches.push(s);
        }
    }

    /// Feed the event of an executed instruction (call after `Machine::step`).
    pub fn observe(&mut self, m: &Machine, ins: &Ins, ev: &Event) {
        let idx = ev.idx;
        // ---- reads
        let is_store = matches!(ins, Ins::Store { .. });
        let is_mem = matches!(ins, Ins::Store { .. } | Ins::Load { .. });
        let top = self.stack.len() - 1;
        for (r, _) in &ev.reads {
            let r = *r as usize;
            if r == 0 {
                continue;
            }
            let f = &self.stack[top];
            if f.original[r] {
                // a saved register / ra / sp still holding the caller's value
                let allowed = if r == SP as usize {
                    !f.is_top
                } else if r == RA as usize {
                    // reading ra: storing it or returning through it
                    is_store || ins.is_ret()
                } else {
                    // saved register: may only be stored as the value (rs2 of a store)
                    is_store && matches!(ins, Ins::Store { rs2, .. } if *rs2 as usize == r)
                };
                if !allowed {
                    self.breach(format!("read-original:{}@{idx}", ABI[r]));
                }
            } else if !f.defined[r] {
                self.breach(format!("read-undefined:{}@{idx}", ABI[r]));
            }
        }
        // ---- stack discipline for sp-relative accesses
        if is_mem {
            let (base, a, bytes) = match ins {
                Ins::Store { base, .. } => {
                    let (a, b, _) = ev.mem_write.unwrap_or((0, 0, 0));
                    (*base, a, b)
                }
                Ins::Load { base, .. } => {
                    let (a, b) = ev.mem_read.unwrap_or((0, 0));
                    (*base, a, b)
                }
                _ => (0, 0, 0),
            };
            if base == SP {
                let f = &self.stack[top];
                // sp before the instruction (loads into sp excluded: never generated)
                let sp_now = ev.reads.iter().find(|(r, _)| *r == SP).map(|(_, v)| *v).unwrap_or(0);
                let lo = sp_now;
                let hi = f.entry_sp;
                let inside = a >= lo && a.wrapping_add(bytes) <= hi && lo <= hi;
                if !inside {
                    self.breach(format!("stack-access-outside-frame@{idx}"));
                }
            }
        }
        // ---- writes
        let mut written: Vec<Reg> = Vec::new();
        if let Some((r, _)) = ev.write {
            written.push(r);
        }
        for (r, _) in &ev.extra_writes {
            written.push(*r);
        }
        match &ev.kind {
            Kind::Call { .. } => {
                // new frame: arguments keep the caller's definedness, temporaries are garbage
                let cur = &self.stack[top];
                let mut defined = [false; 32];
                defined[0] = true;
                for a in ARGS {
                    defined[a as usize] = cur.defined[a as usize] || cur.original[a as usize];
                }
                let mut original = [false; 32];
                for s in SAVED {
                    original[s as usize] = true;
                }
                original[SP as usize] = true;
                original[RA as usize] = true;
                self.stack.push(ConvFrame {
                    defined,
                    original,
                    written: [false; 32],
                    entry_sp: m.x[SP as usize],
                    entry_x: m.x,
                    is_top: false,
                });
            }
            Kind::Ret { matched } => {
                if !*matched {
                    self.breach(format!("ret-to-wrong-address@{idx}"));
                }
                if self.stack.len() > 1 {
                    let f = self.stack.pop().expect("frame");
                    if m.x[SP as usize] != f.entry_sp {
                        self.breach(format!("sp-not-restored@{idx}"));
                    }
                    for s in SAVED {
                        if m.x[s as usize] != f.entry_x[s as usize] {
                            self.breach(format!("saved-not-restored:{}@{idx}", ABI[s as usize]));
                        }
                    }
                    let caller = self.stack.last_mut().expect("caller frame");
                    for t in TEMPS {
                        caller.defined[t as usize] = false;
                        caller.original[t as usize] = false;
                    }
                    for a in ARGS {
                        caller.defined[a as usize] = f.written[a as usize] && f.defined[a as usize];
                        caller.original[a as usize] = false;
                    }
                    // ra was clobbered by the call itself
                    caller.defined[RA as usize] = true;
                    caller.original[RA as usize] = false;
                }
            }
            Kind::Ecall { known: true, exit: false, num } => {
                let f = self.stack.last_mut().expect("frame");
                for r in TEMPS.iter().chain(ARGS.iter()) {
                    f.defined[*r as usize] = false;
                    f.original[*r as usize] = false;
                }
                if let Some((_, writes, _)) = ecall_table(*num) {
                    for w in writes {
                        f.defined[*w as usize] = true;
                        f.written[*w as usize] = true;
                    }
                }
            }
            _ => {
                let f = self.stack.last_mut().expect("frame");
                for r in written {
                    if r != 0 {
                        f.defined[r as usize] = true;
                        f.original[r as usize] = false;
                        f.written[r as usize] = true;
                    }
                }
            }
        }
    }
}

/// Run a program to completion under the convention monitor.
pub fn run_conv(flat: &Flat, seed: u64, cap: u64) -> (Stop, ConvReport, u64) {
    let mut m = Machine::new(flat, seed, cap);
    let mut cm = ConvMon::new(&m);
    loop {
        let idx = m.pc;
        let ev = m.step();
        if idx < flat.ins.len() && ev.stop.as_ref().is_none_or(|s| matches!(s, Stop::Exit(_))) {
            cm.observe(&m, &flat.ins[idx], &ev);
        }
        if let Some(s) = ev.stop {
            return (s, cm.report, m.steps);
        }
    }
}
