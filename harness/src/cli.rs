//! Running the real `rva` binary on scratch files and parsing its three output formats.

use crate::rva::{Pos, Sev, Span};
use std::io::Read;
use std::path::{Path, PathBuf};
use std::process::{Command, Stdio};
use std::time::{Duration, Instant};

pub struct Scratch {
    pub dir: PathBuf,
}

impl Scratch {
    pub fn new(root: &Path, tag: &str) -> Scratch {
        static N: std::sync::atomic::AtomicU64 = std::sync::atomic::AtomicU64::new(0);
        let n = N.fetch_add(1, std::sync::atomic::Ordering::Relaxed);
        let dir = root.join("work").join(format!("{}-{}-{}", tag, std::process::id(), n));
        let _ = std::fs::create_dir_all(&dir);
        Scratch { dir }
    }
    pub fn write(&self, name: &str, text: &str) -> PathBuf {
        let p = self.dir.join(name);
        if let Some(parent) = p.parent() {
            let _ = std::fs::create_dir_all(parent);
        }
        std::fs::write(&p, text).expect("write scratch file");
        p
    }
}

impl Drop for Scratch {
    fn drop(&mut self) {
        let _ = std::fs::remove_dir_all(&self.dir);
    }
}

#[derive(Debug, Clone)]
pub struct Run {
    pub stdout: String,
    pub stderr: String,
    /// exit code; None when killed by a signal
    pub code: Option<i32>,
    pub signal: Option<i32>,
    pub timed_out: bool,
    pub wall: Duration,
}

impl Run {
    pub fn panicked(&self) -> bool {
        self.stderr.contains("panicked at") || self.code == Some(101)
    }
}

/// Run `exe args..` in `cwd` with an address-space limit (KiB) and a wall-clock watchdog.
pub fn run_limited(exe: &Path, args: &[&str], cwd: &Path, mem_kib: u64, timeout: Duration) -> Run {
    use std::os::unix::process::ExitStatusExt;
    let mut sh = String::from("ulimit -v ");
    sh.push_str(&mem_kib.to_string());
    sh.push_str("; ulimit -c 0; exec \"$0\" \"$@\"");
    let mut cmd = Command::new("sh");
    cmd.arg("-c").arg(sh).arg(exe);
    for a in args {
        cmd.arg(a);
    }
    cmd.current_dir(cwd)
        .env("RUST_BACKTRACE", "0")
        .env_remove("NO_COLOR")
        .stdin(Stdio::null())
        .stdout(Stdio::piped())
        .stderr(Stdio::piped());
    let t0 = Instant::now();
    let mut child = cmd.spawn().expect("spawn rva");
    let mut out = child.stdout.take().expect("stdout");
    let mut err = child.stderr.take().expect("stderr");
    // drain both pipes in threads so that the child never blocks on a full pipe
    let ho = std::thread::spawn(move || {
        let mut v = Vec::new();
        let _ = out.read_to_end(&mut v);
        v
    });
    let he = std::thread::spawn(move || {
        let mut v = Vec::new();
        let _ = err.read_to_end(&mut v);
        v
    });
    let mut timed_out = false;
    let status = loop {
        match child.try_wait() {
            Ok(Some(s)) => break s,
            Ok(None) => {
                if t0.elapsed() > timeout {
                    timed_out = true;
                    let _ = child.kill();
                    break child.wait().expect("wait");
                }
                std::thread::sleep(Duration::from_millis(2));
            }
            Err(_) => break child.wait().expect("wait"),
        }
    };
    let stdout = String::from_utf8_lossy(&ho.join().unwrap_or_default()).into_owned();
    let stderr = String::from_utf8_lossy(&he.join().unwrap_or_default()).into_owned();
    Run { stdout, stderr, code: status.code(), signal: status.signal(), timed_out, wall: t0.elapsed() }
}

/// Like `run_limited`, and also reports the peak resident set size (KiB) of the process (measured by
/// `/usr/bin/time`; None when it could not be measured, e.g. after a timeout). The whole process group
/// is killed on a timeout.
pub fn run_measured(exe: &Path, args: &[&str], cwd: &Path, mem_kib: u64, timeout: Duration) -> (Run, Option<u64>) {
    let args: Vec<std::ffi::OsString> = args.iter().map(|a| std::ffi::OsString::from(*a)).collect();
    run_measured_os(exe, &args, cwd, mem_kib, timeout)
}

/// `run_measured` with arguments that need not be UTF-8 (file names).
pub fn run_measured_os(exe: &Path, args: &[std::ffi::OsString], cwd: &Path, mem_kib: u64, timeout: Duration) -> (Run, Option<u64>) {
    use std::os::unix::process::{CommandExt, ExitStatusExt};
    static N: std::sync::atomic::AtomicU64 = std::sync::atomic::AtomicU64::new(0);
    let rss_file = cwd.join(format!(".rss-{}-{}", std::process::id(), N.fetch_add(1, std::sync::atomic::Ordering::Relaxed)));
    // (without /usr/bin/time the run is made all the same, only the peak resident set is not measured)
    let sh = if Path::new("/usr/bin/time").exists() {
        format!("ulimit -v {mem_kib}; ulimit -c 0; exec /usr/bin/time -o \"$RSS_FILE\" -f %M \"$0\" \"$@\"")
    } else {
        format!("ulimit -v {mem_kib}; ulimit -c 0; exec \"$0\" \"$@\"")
    };
    let mut cmd = Command::new("sh");
    cmd.arg("-c").arg(sh).arg(exe);
    for a in args {
        cmd.arg(a);
    }
    cmd.current_dir(cwd)
        .env("RUST_BACKTRACE", "0")
        .env("RSS_FILE", &rss_file)
        .env_remove("NO_COLOR")
        .stdin(Stdio::null())
        .stdout(Stdio::piped())
        .stderr(Stdio::piped())
        .process_group(0);
    let t0 = Instant::now();
    let mut child = cmd.spawn().expect("spawn rva");
    let pgid = child.id();
    let mut out = child.stdout.take().expect("stdout");
    let mut err = child.stderr.take().expect("stderr");
    let ho = std::thread::spawn(move || {
        let mut v = Vec::new();
        let _ = out.read_to_end(&mut v);
        v
    });
    let he = std::thread::spawn(move || {
        let mut v = Vec::new();
        let _ = err.read_to_end(&mut v);
        v
    });
    let mut timed_out = false;
    let status = loop {
        match child.try_wait() {
            Ok(Some(s)) => break s,
            Ok(None) => {
                if t0.elapsed() > timeout {
                    timed_out = true;
                    let _ = Command::new("kill").arg("-9").arg("--").arg(format!("-{pgid}")).status();
                    break child.wait().expect("wait");
                }
                std::thread::sleep(Duration::from_millis(2));
            }
            Err(_) => break child.wait().expect("wait"),
        }
    };
    let stdout = String::from_utf8_lossy(&ho.join().unwrap_or_default()).into_owned();
    let stderr = String::from_utf8_lossy(&he.join().unwrap_or_default()).into_owned();
    let rss = std::fs::read_to_string(&rss_file).ok().and_then(|t| t.lines().last().and_then(|l| l.trim().parse::<u64>().ok()));
    let _ = std::fs::remove_file(&rss_file);
    (Run { stdout, stderr, code: status.code(), signal: status.signal(), timed_out, wall: t0.elapsed() }, rss)
}

pub fn rva(exe: &Path, args: &[&str], cwd: &Path) -> Run {
    run_limited(exe, args, cwd, 4 * 1024 * 1024, Duration::from_secs(20))
}

/// One diagnostic as printed by the CLI.
#[derive(Debug, Clone, PartialEq, Eq, PartialOrd, Ord, Hash)]
pub struct CliDiag {
    pub sev: Sev,
    pub title: String,
    pub file: String,
    /// 0-based line and columns (inclusive end)
    pub line: usize,
    pub c0: usize,
    pub c1: usize,
}

fn sev_of(s: &str) -> Option<Sev> {
    Some(match s {
        "Error" => Sev::Error,
        "Warning" => Sev::Warning,
        "Info" => Sev::Info,
        "Hint" => Sev::Hint,
        _ => return None,
    })
}

pub fn strip_ansi(s: &str) -> String {
    let mut out = String::new();
    let mut it = s.chars().peekable();
    while let Some(c) = it.next() {
        if c == '\u{1b}' {
            if it.peek() == Some(&'[') {
                it.next();
                for d in it.by_ref() {
                    if d.is_ascii_alphabetic() {
                        break;
                    }
                }
            }
        } else {
            out.push(c);
        }
    }
    out
}

/// `Level: title in path at L C1:C2`
pub fn parse_compact(out: &str) -> Result<(Vec<CliDiag>, Option<usize>), String> {
    let mut v = Vec::new();
    let mut others = None;
    for line in strip_ansi(out).lines() {
        if line.is_empty() {
            continue;
        }
        if let Some(rest) = line.strip_suffix(" found in other files. To see all errors, run with the `--all-files` option.") {
            let n = rest.split(' ').next().and_then(|x| x.parse::<usize>().ok()).ok_or("bad other-files line")?;
            others = Some(n);
            continue;
        }
        let (lvl, rest) = line.split_once(": ").ok_or_else(|| format!("no level: {line}"))?;
        let sev = sev_of(lvl).ok_or_else(|| format!("bad level: {line}"))?;
        let at = rest.rfind(" at ").ok_or_else(|| format!("no at: {line}"))?;
        let (left, pos) = rest.split_at(at);
        let pos = &pos[4..];
        let inn = left.rfind(" in ").ok_or_else(|| format!("no in: {line}"))?;
        let (title, file) = left.split_at(inn);
        let file = &file[4..];
        let (l, cols) = pos.split_once(' ').ok_or_else(|| format!("bad pos: {line}"))?;
        let (c0, c1) = cols.split_once(':').ok_or_else(|| format!("bad cols: {line}"))?;
        let l: usize = l.parse().map_err(|_| format!("bad line number: {line}"))?;
        let c0: usize = c0.parse().map_err(|_| format!("bad col: {line}"))?;
        let c1: usize = c1.parse().map_err(|_| format!("bad col: {line}"))?;
        if l == 0 || c0 == 0 || c1 == 0 {
            return Err(format!("zero one-based position: {line}"));
        }
        v.push(CliDiag { sev, title: title.to_string(), file: file.to_string(), line: l - 1, c0: c0 - 1, c1: c1 - 1 });
    }
    Ok((v, others))
}

/// A pretty-printed item with its excerpt.
#[derive(Debug, Clone)]
pub struct PrettyItem {
    pub sev: Sev,
    pub title: String,
    pub file: String,
    /// (one-based line number printed, text of the line as printed, marker line)
    pub excerpt: Option<(usize, String, String)>,
    /// screen column (in chars) of the `|` of the three excerpt lines
    pub bars: Option<(usize, usize, usize)>,
}

pub fn parse_pretty(out: &str) -> Result<(Vec<PrettyItem>, Option<usize>), String> {
    let text = strip_ansi(out);
    let lines: Vec<&str> = text.lines().collect();
    let mut v = Vec::new();
    let mut others = None;
    let mut i = 0;
    while i < lines.len() {
        let line = lines[i];
        if line.is_empty() {
            i += 1;
            continue;
        }
        if let Some(rest) = line.strip_suffix(" found in other files. To see all errors, run with the `--all-files` option.") {
            others = rest.split(' ').next().and_then(|x| x.parse::<usize>().ok());
            i += 1;
            continue;
        }
        let (lvl, title) = line.split_once(": ").ok_or_else(|| format!("no level: {line}"))?;
        let sev = sev_of(lvl).ok_or_else(|| format!("bad level: {line}"))?;
        let f = lines.get(i + 1).ok_or("missing file line")?;
        let file = f.strip_prefix(" in file: ").ok_or_else(|| format!("bad file line: {f}"))?.to_string();
        i += 2;
        let mut excerpt = None;
        let mut bars = None;
        // optional excerpt: "   |", " N | text", "   | markers"
        if let (Some(a), Some(b), Some(c)) = (lines.get(i), lines.get(i + 1), lines.get(i + 2)) {
            if a.trim_start().starts_with('|') && a.trim() == "|" {
                let (num, rest) = b.split_once(" | ").or_else(|| b.split_once(" |")).ok_or_else(|| format!("bad excerpt line: {b}"))?;
                let n: usize = num.trim().parse().map_err(|_| format!("bad excerpt number: {b}"))?;
                let marks = c.split_once(" | ").map(|x| x.1).or_else(|| c.split_once(" |").map(|x| x.1)).unwrap_or("");
                excerpt = Some((n, rest.to_string(), marks.to_string()));
                let bar = |l: &str| l.chars().position(|ch| ch == '|').unwrap_or(usize::MAX);
                bars = Some((bar(a), bar(b), bar(c)));
                i += 3;
            }
        }
        v.push(PrettyItem { sev, title: title.to_string(), file, excerpt, bars });
    }
    Ok((v, others))
}

#[derive(Debug, Clone)]
pub struct JsonDiag {
    pub file: Option<String>,
    pub title: String,
    pub description: String,
    pub sev: Sev,
    pub span: Span,
}

pub fn parse_json(out: &str) -> Result<Vec<JsonDiag>, String> {
    let v: serde_json::Value = serde_json::from_str(out).map_err(|e| format!("invalid json: {e}"))?;
    let obj = v.as_object().ok_or("top level is not an object")?;
    if obj.len() != 1 {
        return Err("top level must have exactly the key `diagnostics`".into());
    }
    let arr = obj.get("diagnostics").and_then(|d| d.as_array()).ok_or("no diagnostics array")?;
    let mut res = Vec::new();
    for d in arr {
        let o = d.as_object().ok_or("diagnostic is not an object")?;
        for k in ["file", "title", "description", "level", "range"] {
            if !o.contains_key(k) {
                return Err(format!("diagnostic lacks `{k}`"));
            }
        }
        let pos = |p: &serde_json::Value| -> Result<Pos, String> {
            let g = |k: &str| p.get(k).and_then(serde_json::Value::as_u64).map(|x| x as usize).ok_or(format!("position lacks `{k}`"));
            Ok(Pos { line: g("line")?, col: g("column")?, raw: g("raw")? })
        };
        let range = &o["range"];
        let span = Span {
            start: pos(range.get("start").ok_or("range lacks start")?)?,
            end: pos(range.get("end").ok_or("range lacks end")?)?,
        };
        res.push(JsonDiag {
            file: o["file"].as_str().map(str::to_string),
            title: o["title"].as_str().ok_or("title is not a string")?.to_string(),
            description: o["description"].as_str().ok_or("description is not a string")?.to_string(),
            sev: sev_of(o["level"].as_str().ok_or("level is not a string")?).ok_or("unknown level")?,
            span,
        });
    }
    Ok(res)
}
