//! Small deterministic PRNG (splitmix64 seeding + xoshiro256**). No external crate.

#[derive(Clone, Debug)]
pub struct Rng {
    s: [u64; 4],
}

fn splitmix(x: &mut u64) -> u64 {
    *x = x.wrapping_add(0x9E37_79B9_7F4A_7C15);
    let mut z = *x;
    z = (z ^ (z >> 30)).wrapping_mul(0xBF58_476D_1CE4_E5B9);
    z = (z ^ (z >> 27)).wrapping_mul(0x94D0_49BB_1331_11EB);
    z ^ (z >> 31)
}

impl Rng {
    pub fn new(seed: u64) -> Self {
        let mut x = seed ^ 0xA076_1D64_78BD_642F;
        let s = [splitmix(&mut x), splitmix(&mut x), splitmix(&mut x), splitmix(&mut x)];
        Rng { s }
    }
    /// Derive an independent stream from (seed, a, b).
    pub fn derive(seed: u64, a: u64, b: u64) -> Self {
        let mut x = seed
            .wrapping_mul(0x2545_F491_4F6C_DD1D)
            .wrapping_add(a.wrapping_mul(0x9E37_79B9_7F4A_7C15))
            .wrapping_add(b.wrapping_mul(0xD6E8_FEB8_6659_FD93));
        let _ = splitmix(&mut x);
        Rng::new(x)
    }
    pub fn next_u64(&mut self) -> u64 {
        let r = self.s[1].wrapping_mul(5).rotate_left(7).wrapping_mul(9);
        let t = self.s[1] << 17;
        self.s[2] ^= self.s[0];
        self.s[3] ^= self.s[1];
        self.s[1] ^= self.s[2];
        self.s[0] ^= self.s[3];
        self.s[2] ^= t;
        self.s[3] = self.s[3].rotate_left(45);
        r
    }
    pub fn next_u32(&mut self) -> u32 {
        (self.next_u64() >> 32) as u32
    }
    /// Uniform in 0..n (n > 0).
    pub fn below(&mut self, n: usize) -> usize {
        debug_assert!(n > 0);
        (self.next_u64() % (n as u64)) as usize
    }
    /// Uniform in lo..=hi.
    pub fn range(&mut self, lo: i64, hi: i64) -> i64 {
        debug_assert!(lo <= hi);
        lo + (self.next_u64() % ((hi - lo + 1) as u64)) as i64
    }
    /// True with probability p (0..=1).
    pub fn chance(&mut self, p: f64) -> bool {
        ((self.next_u64() >> 11) as f64) / ((1u64 << 53) as f64) < p
    }
    pub fn pick<'a, T>(&mut self, xs: &'a [T]) -> &'a T {
        &xs[self.below(xs.len())]
    }
    pub fn shuffle<T>(&mut self, xs: &mut [T]) {
        for i in (1..xs.len()).rev() {
            let j = self.below(i + 1);
            xs.swap(i, j);
        }
    }
    /// A 32-bit value mixing boundary values and uniform ones.
    pub fn interesting_i32(&mut self) -> i32 {
        const POOL: [i32; 22] = [
            0, 1, -1, 2, -2, i32::MIN, i32::MAX, i32::MIN + 1, i32::MAX - 1, 0x7ff, 0x800, -0x800,
            0xfff, 31, 32, 33, 63, 64, 0xffff, 0x10000, -0x10000, 0x5555_5555,
        ];
        match self.below(4) {
            0 => *self.pick(&POOL),
            1 => self.range(-2048, 2047) as i32,
            2 => {
                let k = self.below(32);
                let base = 1i64 << k;
                (base + self.range(-1, 1)) as i32
            }
            _ => self.next_u32() as i32,
        }
    }
}

pub fn hash64(s: &str) -> u64 {
    // FNV-1a, good enough for counting distinct inputs.
    let mut h: u64 = 0xcbf2_9ce4_8422_2325;
    for b in s.as_bytes() {
        h ^= u64::from(*b);
        h = h.wrapping_mul(0x0000_0100_0000_01b3);
    }
    h
}
