//! Adapter around the real `riscv_analysis` library: an in-memory `FileReader`
//! with scripted faults, wrappers that run the public entry points under
//! `catch_unwind`, and harness-side plain-data copies of diagnostics.

use riscv_analysis::cfg::Cfg;
use riscv_analysis::parser::{ParseError, ParserNode, RVParser};
use riscv_analysis::passes::{
    CfgError, DiagnosticItem, DiagnosticLocation, DiagnosticManager, DiagnosticMessage,
    IsSomeDisplayableDiagnostic, Manager, SeverityLevel,
};
use riscv_analysis::reader::{FileReader, FileReaderError};
use std::cell::RefCell;
use std::collections::HashMap;
use std::panic::{catch_unwind, AssertUnwindSafe};
use uuid::Uuid;

// ---------------------------------------------------------------------------------------
// Panic capture
// ---------------------------------------------------------------------------------------

thread_local! {
    static LAST_PANIC: RefCell<Option<PanicInfo>> = const { RefCell::new(None) };
    static IN_GUARD: std::cell::Cell<u32> = const { std::cell::Cell::new(0) };
}

#[derive(Clone, Debug)]
pub struct PanicInfo {
    pub file: String,
    pub line: u32,
    pub msg: String,
}

impl PanicInfo {
    /// Location with the path made relative to the repository (stable across worktrees).
    pub fn site(&self) -> String {
        let f = match self.file.find("riscv_analysis") {
            Some(i) => &self.file[i..],
            None => &self.file,
        };
        format!("{}:{}", f, self.line)
    }
    /// Coarse message class used in finding signatures.
    pub fn class(&self) -> String {
        let m = &self.msg;
        let cls = if m.contains("overflow") {
            "overflow"
        } else if m.contains("divide by zero") || m.contains("remainder with a divisor of zero") {
            "div-zero"
        } else if m.contains("out of bounds") || m.contains("out of range") || m.contains("is not a char boundary") {
            "bounds"
        } else if m.contains("already borrowed") || m.contains("already mutably borrowed") {
            "borrow"
        } else if m.contains("unwrap") || m.contains("expect") {
            "unwrap"
        } else if m.contains("assertion") {
            "assert"
        } else if m.contains("sweep limit") {
            "sweep-limit"
        } else {
            "other"
        };
        cls.to_string()
    }
}

/// Install a silent panic hook that records location + message per thread.
pub fn install_panic_hook() {
    std::panic::set_hook(Box::new(|info| {
        let (file, line) = info
            .location()
            .map(|l| (l.file().to_string(), l.line()))
            .unwrap_or_else(|| ("?".into(), 0));
        let msg = if let Some(s) = info.payload().downcast_ref::<&str>() {
            (*s).to_string()
        } else if let Some(s) = info.payload().downcast_ref::<String>() {
            s.clone()
        } else {
            "<non-string panic>".to_string()
        };
        if IN_GUARD.with(std::cell::Cell::get) == 0 {
            // a panic outside a guarded analyzer call is a bug of the harness itself: be loud
            eprintln!("rvmon: HARNESS PANIC at {file}:{line}: {msg}");
        }
        LAST_PANIC.with(|p| *p.borrow_mut() = Some(PanicInfo { file, line, msg }));
    }));
}

/// Run `f`, turning a panic into `Err(PanicInfo)`.
pub fn guarded<T>(f: impl FnOnce() -> T) -> Result<T, PanicInfo> {
    LAST_PANIC.with(|p| *p.borrow_mut() = None);
    IN_GUARD.with(|g| g.set(g.get() + 1));
    let r = catch_unwind(AssertUnwindSafe(f));
    IN_GUARD.with(|g| g.set(g.get() - 1));
    match r {
        Ok(v) => Ok(v),
        Err(_) => Err(LAST_PANIC.with(|p| p.borrow_mut().take()).unwrap_or(PanicInfo {
            file: "?".into(),
            line: 0,
            msg: "panic without info".into(),
        })),
    }
}

// ---------------------------------------------------------------------------------------
// In-memory file reader with fault injection
// ---------------------------------------------------------------------------------------

#[derive(Clone, Debug, PartialEq, Eq)]
pub enum Fault {
    /// Behave as if the file does not exist.
    NotFound,
    /// Fail with an IO error.
    Io,
    /// Internal error of the reader.
    Internal,
}

/// How the reader reacts to a second request for a file it already delivered.
#[derive(Clone, Copy, Debug, PartialEq, Eq)]
pub enum Reread {
    /// Like `EmptyFileReader`: refuse with `FileAlreadyRead`.
    Refuse,
    /// Like the editor integration's reader: deliver the same text (same uuid) again.
    AllowSameId,
    /// Like the CLI reader: deliver the text again under a fresh uuid.
    AllowFreshId,
}

#[derive(Clone, Debug)]
pub struct MemReader {
    /// name -> text
    pub files: HashMap<String, String>,
    pub faults: HashMap<String, Fault>,
    pub reread: Reread,
    /// uuid -> name, in import order
    pub imported: Vec<(Uuid, String)>,
    pub base: Option<Uuid>,
    pub import_calls: usize,
    /// Hard cap on import calls: beyond it the reader panics with a recognisable message,
    /// which is how an include loop becomes an observable event instead of a hang.
    pub import_cap: usize,
}

impl MemReader {
    pub fn new(files: &[(String, String)]) -> Self {
        MemReader {
            files: files.iter().cloned().collect(),
            faults: HashMap::new(),
            reread: Reread::Refuse,
            imported: Vec::new(),
            base: None,
            import_calls: 0,
            import_cap: 10_000,
        }
    }
    pub fn single(name: &str, text: &str) -> Self {
        Self::new(&[(name.to_string(), text.to_string())])
    }
    pub fn name_of(&self, id: Uuid) -> Option<String> {
        self.imported.iter().find(|(u, _)| *u == id).map(|(_, n)| n.clone())
    }
    /// Resolve `path` relative to the directory of `parent` (plain string paths, `/` separated,
    /// `.` and `..` normalised).
    pub fn resolve(parent: Option<&str>, path: &str) -> String {
        let mut parts: Vec<&str> = Vec::new();
        if !path.starts_with('/') {
            if let Some(p) = parent {
                let mut pp: Vec<&str> = p.split('/').collect();
                pp.pop();
                parts.extend(pp);
            }
        }
        for seg in path.split('/') {
            match seg {
                "" | "." => {}
                ".." => {
                    parts.pop();
                }
                s => parts.push(s),
            }
        }
        parts.join("/")
    }
}

impl FileReader for MemReader {
    fn import_file(
        &mut self,
        path: &str,
        parent_file: Option<Uuid>,
    ) -> Result<(Uuid, String), FileReaderError> {
        self.import_calls += 1;
        assert!(
            self.import_calls <= self.import_cap,
            "rvmon: include loop (import cap {} exceeded)",
            self.import_cap
        );
        let parent_name = match parent_file {
            Some(id) => match self.name_of(id) {
                Some(n) => Some(n),
                None => return Err(FileReaderError::InternalFileNotFound),
            },
            None => None,
        };
        let full = Self::resolve(parent_name.as_deref(), path);
        match self.faults.get(&full) {
            Some(Fault::NotFound) => return Err(FileReaderError::InvalidPath),
            Some(Fault::Io) => return Err(FileReaderError::IOErr("injected io error".into())),
            Some(Fault::Internal) => return Err(FileReaderError::Unexpected),
            None => {}
        }
        let Some(text) = self.files.get(&full).cloned() else {
            return Err(FileReaderError::InvalidPath);
        };
        if let Some((id, _)) = self.imported.iter().find(|(_, n)| *n == full).cloned() {
            match self.reread {
                Reread::Refuse => return Err(FileReaderError::FileAlreadyRead(full)),
                Reread::AllowSameId => return Ok((id, text)),
                Reread::AllowFreshId => {}
            }
        }
        let id = Uuid::new_v4();
        self.base.get_or_insert(id);
        self.imported.push((id, full));
        Ok((id, text))
    }

    fn get_text(&self, uuid: Uuid) -> Option<String> {
        self.name_of(uuid).and_then(|n| self.files.get(&n).cloned())
    }

    fn get_filename(&self, uuid: Uuid) -> Option<String> {
        self.name_of(uuid)
    }

    fn get_base_file(&self) -> Option<Uuid> {
        self.base
    }
}

// ---------------------------------------------------------------------------------------
// Plain-data diagnostics
// ---------------------------------------------------------------------------------------

#[derive(Clone, Copy, Debug, PartialEq, Eq, Hash, PartialOrd, Ord)]
pub enum Sev {
    Error,
    Warning,
    Info,
    Hint,
}

impl Sev {
    pub fn from(l: &SeverityLevel) -> Sev {
        match l {
            SeverityLevel::Error => Sev::Error,
            SeverityLevel::Warning => Sev::Warning,
            SeverityLevel::Information => Sev::Info,
            SeverityLevel::Hint => Sev::Hint,
        }
    }
    pub fn as_str(self) -> &'static str {
        match self {
            Sev::Error => "Error",
            Sev::Warning => "Warning",
            Sev::Info => "Info",
            Sev::Hint => "Hint",
        }
    }
}

#[derive(Clone, Copy, Debug, PartialEq, Eq, Hash, PartialOrd, Ord, Default)]
pub struct Pos {
    pub line: usize,
    pub col: usize,
    pub raw: usize,
}

#[derive(Clone, Copy, Debug, PartialEq, Eq, Hash, PartialOrd, Ord, Default)]
pub struct Span {
    pub start: Pos,
    pub end: Pos,
}

impl Span {
    pub fn of(r: &riscv_analysis::parser::Range) -> Span {
        Span {
            start: Pos {
                line: r.start().zero_idx_line(),
                col: r.start().zero_idx_column(),
                raw: r.start().raw_index(),
            },
            end: Pos {
                line: r.end().zero_idx_line(),
                col: r.end().zero_idx_column(),
                raw: r.end().raw_index(),
            },
        }
    }
}

#[derive(Clone, Debug, PartialEq, Eq, Hash, PartialOrd, Ord)]
pub struct Diag {
    /// lint code (`dead-assignment`, ...), `parse:<Variant>` or `cfg:<Variant>`; empty when
    /// the diagnostic came through `RVParser::run` (which only has titles).
    pub code: String,
    pub title: String,
    pub sev: Sev,
    /// file name as known to the reader, `<nil>` for the nil uuid, `<unknown>` otherwise
    pub file: String,
    pub span: Span,
    pub raw_text: String,
    pub desc: String,
    pub related: Vec<(String, Span, String)>,
}

pub fn file_name(reader: &MemReader, id: Uuid) -> String {
    if id.is_nil() {
        "<nil>".to_string()
    } else {
        reader.name_of(id).unwrap_or_else(|| "<unknown>".to_string())
    }
}

/// Variant name (taken from the Debug rendering, so that new variants need no harness change).
fn variant_name(dbg: String) -> String {
    dbg.split(|c: char| !(c.is_alphanumeric() || c == '_')).next().unwrap_or("").to_string()
}

pub fn parse_error_variant(e: &ParseError) -> String {
    variant_name(format!("{e:?}"))
}

pub fn cfg_error_variant(e: &CfgError) -> String {
    variant_name(format!("{e:?}"))
}

fn diag_from_msg<T: DiagnosticMessage + DiagnosticLocation>(
    reader: &MemReader,
    code: String,
    v: &T,
) -> Diag {
    Diag {
        code,
        title: v.title(),
        sev: Sev::from(&v.level()),
        file: file_name(reader, v.file()),
        span: Span::of(&v.range()),
        raw_text: v.raw_text(),
        desc: v.description(),
        related: v
            .related()
            .unwrap_or_default()
            .into_iter()
            .map(|r| (file_name(reader, r.file), Span::of(&r.range), r.description))
            .collect(),
    }
}

pub fn diag_from_lint(reader: &MemReader, d: &dyn IsSomeDisplayableDiagnostic) -> Diag {
    Diag {
        code: d.get_error_code().to_string(),
        title: d.get_title().to_string(),
        sev: Sev::from(&d.get_severity()),
        file: file_name(reader, d.file()),
        span: Span::of(&d.range()),
        raw_text: d.raw_text(),
        desc: d.get_long_description(),
        related: d
            .get_related_information()
            .map(|it| {
                it.map(|r| (file_name(reader, r.file()), Span::of(&r.range()), r.get_description()))
                    .collect()
            })
            .unwrap_or_default(),
    }
}

pub fn diag_from_item(reader: &MemReader, d: &DiagnosticItem) -> Diag {
    Diag {
        code: String::new(),
        title: d.title.clone(),
        sev: Sev::from(&d.level),
        file: file_name(reader, d.file),
        span: Span::of(&d.range),
        raw_text: String::new(),
        desc: d.description.clone(),
        related: d
            .related
            .clone()
            .unwrap_or_default()
            .into_iter()
            .map(|r| (file_name(reader, r.file), Span::of(&r.range), r.description))
            .collect(),
    }
}

// ---------------------------------------------------------------------------------------
// Running the analyzer
// ---------------------------------------------------------------------------------------

/// Result of the staged route (parse, build graph, lint) that keeps the graph for inspection.
pub struct Analysis {
    pub reader: MemReader,
    pub nodes: Vec<ParserNode>,
    pub parse_errors: Vec<Diag>,
    pub parse_errors_raw: Vec<ParseError>,
    pub cfg: Result<Cfg, Diag>,
    pub cfg_error_raw: Option<CfgError>,
    /// lints in emission order (not sorted)
    pub lints: Vec<Diag>,
}

impl Drop for Analysis {
    fn drop(&mut self) {
        // the library's graphs are reference cycles: break them, or every analysis leaks
        if let Ok(cfg) = &self.cfg {
            riscv_analysis::verif_hooks::dispose(cfg);
        }
    }
}

impl Analysis {
    /// All diagnostics (parse errors, cfg error, lints).
    pub fn all_diags(&self) -> Vec<Diag> {
        let mut v = self.parse_errors.clone();
        if let Err(e) = &self.cfg {
            v.push(e.clone());
        }
        v.extend(self.lints.iter().cloned());
        v
    }
}

pub fn parse_only(reader: MemReader, base: &str) -> (MemReader, Vec<ParserNode>, Vec<ParseError>) {
    let mut parser = RVParser::new(reader);
    let (nodes, errs) = parser.parse_from_file(base, false);
    (parser.reader, nodes, errs)
}

/// Parse + full graph + all lints, the same steps `rva lint` performs.
/// Sweep limit per fixed-point pass: turns a non-terminating pass into a recognisable panic
/// ("verif-hooks: sweep limit exceeded") instead of a hang.
pub const SWEEP_LIMIT: u64 = 20_000;

pub fn arm_sweep_limit() {
    riscv_analysis::verif_hooks::reset();
    riscv_analysis::verif_hooks::set_limit(SWEEP_LIMIT);
}

pub fn analyze_with(reader: MemReader, base: &str) -> Analysis {
    arm_sweep_limit();
    let (reader, nodes, errs) = parse_only(reader, base);
    let parse_errors: Vec<Diag> = errs
        .iter()
        .map(|e| diag_from_msg(&reader, format!("parse:{}", parse_error_variant(e)), e))
        .collect();
    let mut lints = Vec::new();
    let mut cfg_error_raw = None;
    let cfg = match Manager::gen_full_cfg(nodes.clone()) {
        Ok(cfg) => {
            let mut dm = DiagnosticManager::new();
            Manager::run_diagnostics(&cfg, &mut dm);
            for d in dm.iter() {
                lints.push(diag_from_lint(&reader, d.as_ref()));
            }
            Ok(cfg)
        }
        Err(e) => {
            let d = diag_from_msg(&reader, format!("cfg:{}", cfg_error_variant(&e)), &*e);
            cfg_error_raw = Some(*e);
            Err(d)
        }
    };
    Analysis { reader, nodes, parse_errors, parse_errors_raw: errs, cfg, cfg_error_raw, lints }
}

pub fn analyze_text(text: &str) -> Analysis {
    analyze_with(MemReader::single("main.s", text), "main.s")
}

pub fn analyze_files(files: &[(String, String)], base: &str) -> Analysis {
    analyze_with(MemReader::new(files), base)
}

/// The editor entry point: `RVParser::run` (sorted `DiagnosticItem`s, titles only).
pub fn run_editor_entry(reader: MemReader, base: &str) -> (MemReader, Vec<Diag>) {
    arm_sweep_limit();
    let mut parser = RVParser::new(reader);
    let items = parser.run(base);
    let diags = items.iter().map(|d| diag_from_item(&parser.reader, d)).collect();
    (parser.reader, diags)
}
