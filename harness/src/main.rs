mod ast;
mod cli;
mod decode;
mod gen;
mod graph;
mod hostile;
mod machine;
mod print;
mod props;
mod report;
mod rng;
mod rva;
mod shapes;

use std::collections::BTreeMap;

fn main() {
    let args: Vec<String> = std::env::args().collect();
    let cmd = args.get(1).map(String::as_str).unwrap_or("");
    match cmd {
        "gen" => {
            let seed: u64 = args.get(2).and_then(|s| s.parse().ok()).unwrap_or(1);
            let wild = args.get(3).map(|s| s == "wild").unwrap_or(false);
            let prof = if wild { gen::Profile::wild() } else { gen::Profile::conforming() };
            let mut r = rng::Rng::new(seed);
            let g = gen::generate(&mut r, &prof, None);
            let p = print::print_plain(&g.prog);
            for (i, l) in p.text.lines().enumerate() {
                println!("{i:4}: {l}");
            }
            let a = rva::guarded(|| rva::analyze_text(&p.text));
            match a {
                Ok(a) => {
                    for d in a.all_diags() {
                        println!("{} L{} {}..{} {:?}", d.code, d.span.start.line, d.span.start.col, d.span.end.col, d.raw_text);
                    }
                }
                Err(p) => println!("PANIC {} {}", p.site(), p.msg),
            }
            let flat = g.prog.flatten();
            let (stop, conv, steps) = machine::run_conv(&flat, seed, 100000);
            println!("{:?} {:?} {}", stop, conv, steps);
        }
        "survey" => {
            rva::install_panic_hook();
            let n: u64 = args.get(2).and_then(|s| s.parse().ok()).unwrap_or(200);
            let mut codes: BTreeMap<String, (u64, u64)> = BTreeMap::new();
            let mut stops: BTreeMap<String, u64> = BTreeMap::new();
            let mut clean = 0;
            for seed in 0..n {
                let mut r = rng::Rng::new(seed);
                let g = gen::generate(&mut r, &gen::Profile::conforming(), None);
                let p = print::print_plain(&g.prog);
                match rva::guarded(|| rva::analyze_text(&p.text)) {
                    Ok(a) => {
                        let ds = a.all_diags();
                        if ds.is_empty() {
                            clean += 1;
                        }
                        for d in ds {
                            let e = codes.entry(d.code.clone()).or_insert((0, seed));
                            e.0 += 1;
                        }
                    }
                    Err(pi) => {
                        let e = codes.entry(format!("PANIC {}", pi.site())).or_insert((0, seed));
                        e.0 += 1;
                    }
                }
                let flat = g.prog.flatten();
                for k in 0..2 {
                    let (stop, conv, _) = machine::run_conv(&flat, seed * 7 + k, 200000);
                    let key = match stop {
                        machine::Stop::Exit(_) => "exit".to_string(),
                        machine::Stop::StepCap => "cap".to_string(),
                        machine::Stop::Fault(f) => format!("fault:{f} seed={seed}"),
                    };
                    *stops.entry(key).or_insert(0) += 1;
                    if !conv.ok() {
                        *stops.entry(format!("conv:{} seed={seed}", conv.breaches[0].split('@').next().unwrap_or(""))).or_insert(0) += 1;
                    }
                }
            }
            println!("clean {clean}/{n}");
            for (c, (k, s)) in codes {
                println!("{c}: {k} (first seed {s})");
            }
            for (c, k) in stops {
                println!("{c}: {k}");
            }
        }
        "c05dbg" => {
            rva::install_panic_hook();
            let seed: u64 = args.get(2).and_then(|s| s.parse().ok()).unwrap_or(1);
            let ci: usize = args.get(3).and_then(|s| s.parse().ok()).unwrap_or(0);
            let k: u64 = args.get(4).and_then(|s| s.parse().ok()).unwrap_or(0);
            let kind = gen::ALL_INJECT[ci];
            let mut rng = rng::Rng::derive(seed, 5_000 + ci as u64, k);
            let style = if rng.chance(0.5) { print::Style::plain() } else { print::Style::random(&mut rng) };
            let c = props::common::make_case(&mut rng, &gen::Profile::conforming(), Some(kind), Some(&style));
            for (i, l) in c.printed.text.lines().enumerate() {
                println!("{i:4}: {l}");
            }
            println!("site {:?}", c.g.site);
            if let Some(site) = &c.g.site {
                for l in &site.lines {
                    println!("site printed line {:?}", c.printed.line_of_src.get(*l));
                }
            }
            match props::common::analyze(&c.printed.text) {
                Ok(a) => {
                    for d in a.all_diags() {
                        println!("{}", props::common::diag_brief(&d));
                    }
                }
                Err(p) => println!("PANIC {} {}", p.site(), p.msg),
            }
        }
        "bench" => {
            rva::install_panic_hook();
            let n: u64 = args.get(2).and_then(|s| s.parse().ok()).unwrap_or(100);
            let t0 = std::time::Instant::now();
            let mut progs = Vec::new();
            let mut lines = 0;
            for seed in 0..n {
                let mut r = rng::Rng::new(seed);
                let g = gen::generate(&mut r, &gen::Profile::conforming(), None);
                let p = print::print_plain(&g.prog);
                lines += p.text.lines().count();
                progs.push((g, p));
            }
            println!("gen+print {:?} lines/prog {}", t0.elapsed(), lines as u64 / n);
            let t0 = std::time::Instant::now();
            for (_, p) in &progs {
                let _ = rva::guarded(|| rva::analyze_text(&p.text));
            }
            println!("analyze {:?}", t0.elapsed());
            let t0 = std::time::Instant::now();
            for (_, p) in &progs {
                let _ = rva::guarded(|| rva::parse_only(rva::MemReader::single("main.s", &p.text), "main.s"));
            }
            println!("parse only {:?}", t0.elapsed());
            let t0 = std::time::Instant::now();
            let mut steps = 0;
            for (g, _) in &progs {
                let flat = g.prog.flatten();
                let (_, _, s) = machine::run_conv(&flat, 1, 200000);
                steps += s;
            }
            println!("machine {:?} steps {}", t0.elapsed(), steps);
        }
        "corpus" => {
            // seed corpus for the coverage-guided tier of C06: rvmon corpus <dir> <n> <seed>
            let dir = std::path::PathBuf::from(args.get(2).cloned().unwrap_or_default());
            let n: u64 = args.get(3).and_then(|s| s.parse().ok()).unwrap_or(200);
            let seed: u64 = args.get(4).and_then(|s| s.parse().ok()).unwrap_or(1);
            let _ = std::fs::create_dir_all(&dir);
            let mut written = 0;
            for k in 0..n {
                let mut rng = rng::Rng::derive(seed, 6_600, k);
                let text = match k % 6 {
                    0 => hostile::token_soup(&mut rng, 200),
                    1 | 2 => hostile::mutate_program(&mut rng),
                    3 => {
                        let g = gen::generate(&mut rng, &gen::Profile::wild(), None);
                        print::print(&g.prog, &print::Style::random(&mut rng), &mut rng).text
                    }
                    4 => {
                        let g = gen::generate(&mut rng, &gen::Profile::wild_surface(), None);
                        print::print(&g.prog, &print::Style::plain(), &mut rng).text
                    }
                    _ => {
                        let s = shapes::failure_shapes(&mut rng);
                        let i = rng.below(s.len());
                        print::print(&s[i].prog, &print::Style::plain(), &mut rng).text
                    }
                };
                // small seeds: the fuzzer's start-up merge runs every seed under AddressSanitizer
                let mut text = text;
                if text.len() > 1500 {
                    let mut cut = 1500;
                    while !text.is_char_boundary(cut) {
                        cut -= 1;
                    }
                    let at = text[..cut].rfind('\n').map_or(cut, |i| i + 1);
                    text.truncate(at);
                }
                if std::fs::write(dir.join(format!("seed-{k:05}")), text).is_ok() {
                    written += 1;
                }
            }
            println!("{written}");
        }
        "shapes" => {
            // exploration aid: rvmon shapes <dir> <n> <seed> - write hand-written shape families as files
            let dir = std::path::PathBuf::from(args.get(2).cloned().unwrap_or_default());
            let n: u64 = args.get(3).and_then(|s| s.parse().ok()).unwrap_or(100);
            let seed: u64 = args.get(4).and_then(|s| s.parse().ok()).unwrap_or(1);
            let _ = std::fs::create_dir_all(&dir);
            for k in 0..n {
                let mut rng = rng::Rng::derive(seed, 6_800, k);
                let s = match k % 3 {
                    0 => shapes::trap_handler_family(&mut rng),
                    1 => shapes::shared_tail_family(&mut rng),
                    _ => {
                        let mut v = shapes::call_graph_shapes(&mut rng);
                        let i = rng.below(v.len());
                        v.swap_remove(i)
                    }
                };
                let text = print::print(&s.prog, &print::Style::plain(), &mut rng::Rng::new(1)).text;
                let _ = std::fs::write(dir.join(format!("{k:04}-{}.s", s.name)), text);
            }
        }
        "mutants" => {
            // exploration aid: rvmon mutants <n> <seed> - analyse n semantic mutants, report divergences
            rva::install_panic_hook();
            let n: u64 = args.get(2).and_then(|s| s.parse().ok()).unwrap_or(1000);
            let seed: u64 = args.get(3).and_then(|s| s.parse().ok()).unwrap_or(1);
            let mut classes: BTreeMap<String, u64> = BTreeMap::new();
            for k in 0..n {
                let mut rng = rng::Rng::derive(seed, 6_700, k);
                let p = hostile::semantic_mutant(&mut rng);
                let text = print::print(&p, &print::Style::plain(), &mut rng::Rng::new(1)).text;
                let r = rva::guarded(|| rva::analyze_text(&text));
                let key = match r {
                    Ok(a) => if a.cfg.is_ok() { "ok".to_string() } else { "cfg-error".to_string() },
                    Err(p) => format!("panic:{}:{}:{}", p.class(), p.site(), p.msg.chars().take(60).collect::<String>()),
                };
                if key.starts_with("panic") && *classes.get(&key).unwrap_or(&0) < 2 {
                    let dir = std::path::PathBuf::from("/verif/work/mutants");
                    let _ = std::fs::create_dir_all(&dir);
                    let _ = std::fs::write(dir.join(format!("{seed}-{k}.s")), &text);
                }
                *classes.entry(key).or_insert(0) += 1;
            }
            println!("{classes:?}");
        }
        "worker" => {
            let path = args.get(2).cloned().unwrap_or_default();
            std::process::exit(props::c06::worker(&path));
        }
        "check" => {
            // rvmon check <PROP> --tier quick|thorough --seed N --root DIR --jobs N --rva-checked P --rva-release P
            rva::install_panic_hook();
            let prop = args.get(2).cloned().unwrap_or_default();
            let mut tier = report::Tier::Quick;
            let mut seed = 1u64;
            let mut root = std::path::PathBuf::from("/verif");
            let mut jobs = std::thread::available_parallelism().map(|n| n.get()).unwrap_or(8).min(16);
            let mut rva_checked = std::path::PathBuf::new();
            let mut rva_release = std::path::PathBuf::new();
            let mut tag = String::new();
            let mut replay: Option<std::path::PathBuf> = None;
            let mut shard: Option<(usize, usize)> = None;
            let mut acc_out: Option<std::path::PathBuf> = None;
            let mut i = 3;
            while i < args.len() {
                let v = args.get(i + 1).cloned().unwrap_or_default();
                match args[i].as_str() {
                    "--tier" => tier = if v == "thorough" { report::Tier::Thorough } else { report::Tier::Quick },
                    "--seed" => seed = v.parse().unwrap_or(1),
                    "--root" => root = v.into(),
                    "--jobs" => jobs = v.parse().unwrap_or(jobs),
                    "--rva-checked" => rva_checked = v.into(),
                    "--rva-release" => rva_release = v.into(),
                    "--tag" => tag = v,
                    "--replay" => replay = Some(v.into()),
                    "--shard" => {
                        let (a, b) = v.split_once(':').unwrap_or(("0", "0"));
                        shard = Some((a.parse().unwrap_or(0), b.parse().unwrap_or(0)));
                    }
                    "--acc-out" => acc_out = Some(v.into()),
                    _ => {}
                }
                i += 2;
            }
            let ctx = report::Ctx {
                prop,
                tier,
                seed,
                root,
                jobs: jobs.max(1),
                rva_checked,
                rva_release,
                self_exe: std::env::current_exe().unwrap_or_default(),
                checked_build: cfg!(debug_assertions),
                tag,
                replay,
                shard,
                acc_out,
            };
            std::process::exit(props::run(&ctx));
        }
        _ => eprintln!("usage: rvmon check <PROP> [--tier quick|thorough] [--seed N] | gen <seed> [wild] | survey <n>"),
    }
}
