//! G-hostile: inputs that are not (necessarily) programs.

use crate::gen::{self, Profile};
use crate::print::{print, Style};
use crate::rng::Rng;

const VOCAB: [&str; 96] = [
    "add", "addi", "sub", "and", "andi", "or", "ori", "xor", "xori", "sll", "slli", "srl", "srli", "sra", "srai", "slt", "slti", "sltu", "sltiu",
    "mul", "mulh", "mulhsu", "mulhu", "div", "divu", "rem", "remu", "lui", "auipc", "lb", "lbu", "lh", "lhu", "lw", "sb", "sh", "sw", "beq", "bne",
    "blt", "bge", "bltu", "bgeu", "jal", "jalr", "j", "jr", "ret", "call", "la", "li", "mv", "neg", "not", "nop", "ecall", "ebreak", "uret",
    "csrrw", "csrrs", "csrrwi", "csrr", "csrw", "csrwi", "fence", "beqz", "bnez", "bgtz", "blez", "seqz", "snez", "sgez",
    ".text", ".data", ".word", ".byte", ".half", ".asciz", ".string", ".space", ".align", ".include", ".macro", ".endmacro", ".globl", ".eqv", ".section",
    "utvec", "ustatus", "uscratch", "uepc", "ucause", "time", "cycle", "zero", "fp",
];

const REGS: [&str; 14] = ["x0", "x1", "x2", "x31", "ra", "sp", "t0", "t6", "s0", "s11", "a0", "a7", "gp", "tp"];
const NUMS: [&str; 18] = [
    "0", "1", "-1", "2147483647", "-2147483648", "2147483648", "4294967295", "4294967296", "0x7fffffff", "0x80000000", "0xffffffff", "-0x80000000",
    "0b11111111111111111111111111111111", "0x", "'a'", "'\\n'", "99999999999999999999", "-0",
];
const PUNCT: [&str; 16] = ["(", ")", ",", ":", "\n", "\n", " ", "\t", "#", "\"", "'", ".", "-", "+", ";", "@"];

pub fn token_soup(rng: &mut Rng, len: usize) -> String {
    let mut s = String::new();
    while s.len() < len {
        match rng.below(10) {
            0..=3 => s.push_str(VOCAB[rng.below(VOCAB.len())]),
            4 | 5 => s.push_str(REGS[rng.below(REGS.len())]),
            6 => s.push_str(NUMS[rng.below(NUMS.len())]),
            7 => {
                s.push_str("lab");
                s.push_str(&rng.below(5).to_string());
                if rng.chance(0.5) {
                    s.push(':');
                }
            }
            _ => s.push_str(PUNCT[rng.below(PUNCT.len())]),
        }
        s.push_str(if rng.chance(0.7) { " " } else { "" });
        if rng.chance(0.15) {
            s.push('\n');
        }
    }
    s
}

pub fn random_unicode(rng: &mut Rng, len: usize) -> String {
    let mut s = String::new();
    while s.len() < len {
        let c = match rng.below(8) {
            0 => char::from(rng.below(32) as u8),
            1 => char::from(32 + rng.below(95) as u8),
            2 => char::from_u32(0x80 + rng.below(0x700) as u32).unwrap_or('x'),
            3 => char::from_u32(0x4e00 + rng.below(0x2000) as u32).unwrap_or('x'),
            4 => char::from_u32(0x1f300 + rng.below(0x300) as u32).unwrap_or('x'),
            5 => *rng.pick(&['\n', '\r', '\t', '"', '\'', '\\', '#', '.', ':', '(', ')', '\u{a0}', '\u{2028}', '\u{feff}', '\0']),
            _ => char::from(b'a' + rng.below(26) as u8),
        };
        s.push(c);
    }
    s
}

/// Line-level and token-level mutations of a valid program.
pub fn mutate_program(rng: &mut Rng) -> String {
    let g = gen::generate(rng, &Profile::wild(), None);
    let text = print(&g.prog, &Style::random(rng), rng).text;
    let mut lines: Vec<String> = text.lines().map(str::to_string).collect();
    let n_mut = 1 + rng.below(6);
    for _ in 0..n_mut {
        if lines.is_empty() {
            break;
        }
        let i = rng.below(lines.len());
        match rng.below(16) {
            0 => {
                lines.remove(i);
            }
            1 => {
                let l = lines[i].clone();
                lines.insert(i, l);
            }
            2 => {
                // swap two operands / tokens
                let mut toks: Vec<String> = lines[i].split(' ').map(str::to_string).collect();
                if toks.len() >= 2 {
                    let a = rng.below(toks.len());
                    let b = rng.below(toks.len());
                    toks.swap(a, b);
                }
                lines[i] = toks.join(" ");
            }
            3 => {
                // truncate the line
                let cs: Vec<char> = lines[i].chars().collect();
                let k = rng.below(cs.len().max(1));
                lines[i] = cs[..k].iter().collect();
            }
            4 => lines[i].push('\r'),
            5 => {
                let cs: Vec<char> = lines[i].chars().collect();
                let k = rng.below(cs.len() + 1);
                let ins = *rng.pick(&['+', ';', '@', ':', '\u{e9}', '"', '\'', '(', ')', '.', '\u{a0}', '\t', '\\', '\u{3000}', '\u{2003}']);
                let mut v = cs;
                v.insert(k, ins);
                lines[i] = v.into_iter().collect();
            }
            6 => lines[i] = format!("{} \"unterminated", lines[i]),
            15 => {
                // string and character literals with escape sequences
                let esc = ["\\n", "\\t", "\\0", "\\\\", "\\\"", "\\u0041", "\\u00e9", "\\u20ac", "\\uD800", "\\u12", "\\x41", "\\q"];
                let a = esc[rng.below(esc.len())];
                let b = esc[rng.below(esc.len())];
                lines[i] = match rng.below(3) {
                    0 => format!("    .asciz \"{a}x{b}\""),
                    1 => format!("    li t0, '{a}'"),
                    _ => format!("    .string \"{a}{b}{a}\" # {b}"),
                };
            }
            14 => lines[i] = format!("    .asciz \"{}\" {}", ["\u{3000}", "\u{3000}\u{3000}\u{3000}", "a\u{2003}\u{2003}b", "\u{a0}\u{a0}"][rng.below(4)], ["x", "frob 1", "\"y\" z"][rng.below(3)]),
            7 => lines[i] = ".macro foo".to_string(),
            8 => lines[i] = format!("    .word {}", (0..rng.below(40)).map(|k| k.to_string()).collect::<Vec<_>>().join(", ")),
            9 => lines[i] = format!("    li t0, {}", NUMS[rng.below(NUMS.len())]),
            10 => lines[i] = format!("    addi sp, sp, {}", *rng.pick(&["2147483647", "-2147483648", "0x7fffffff", "2147483600"])),
            11 => lines[i] = format!("    sw t0, {}(sp)", *rng.pick(&["2147483647", "-2147483648", "0x7ffffff0"])),
            12 => lines[i] = format!("\u{a0}{}", lines[i]),
            _ => lines[i] = lines[i].replace(' ', "\t"),
        }
    }
    let mut t = lines.join(if rng.chance(0.1) { "\r\n" } else { "\n" });
    if rng.chance(0.7) {
        t.push('\n');
    }
    if rng.chance(0.25) {
        // the file ends in the middle of anything (often right behind an escape sequence)
        let cs: Vec<char> = t.chars().collect();
        let cut = match cs.iter().rposition(|c| *c == '\\') {
            Some(p) if rng.chance(0.6) => (p + 1 + rng.below(5)).min(cs.len()),
            _ => rng.below(cs.len() + 1),
        };
        t = cs[..cut].iter().collect();
    }
    t
}

/// Structurally extreme inputs.
pub fn extremes(rng: &mut Rng, scale: usize) -> Vec<(&'static str, String)> {
    let n = scale;
    vec![
        ("empty", String::new()),
        ("escape-cut-by-end-of-file", format!("main:\n    .asciz \"ab\\u{}", ["", "4", "41", "004"][rng.below(4)])),
        ("char-escape-cut-by-end-of-file", format!("    li t0, '\\{}", ["", "u", "u3", "u00e"][rng.below(4)])),
        ("escapes", "    .asciz \"\\n\\t\\0\\\\\\\"\\u0041\\u20ac\"\n    li t0, '\\u00e9'\n    li t1, '\\''\n".to_string()),
        ("wide-space-in-string-then-junk", ".asciz \"\u{3000}\u{3000}\u{3000}\" x\n    li t0, \"\u{2003}\u{a0}\" 5\n".to_string()),
        ("wide-space-before-error", "main:\n\u{3000}addi t0, t0, 1\n    .string \"a\u{3000}\" \"b\u{3000}\u{3000}\" frob\n".to_string()),
        ("tabs-and-wide-chars", "main:\n\t\taddi\tt0,\tt0,\t@\n\t.asciz\t\"\u{1f600}\u{3000}\"\tjunk\n".to_string()),
        ("only-newlines", "\n".repeat(n)),
        ("only-dots", ". ".repeat(n)),
        ("dots-no-spaces", ".".repeat(n)),
        ("long-line-of-tokens", "add ".repeat(n)),
        ("many-labels", (0..n / 4).map(|k| format!("l{k}:\n")).collect()),
        ("labels-on-one-line", (0..n / 4).map(|k| format!("l{k}: ")).collect()),
        ("deep-parens", format!("lw a0, {}{}", "(".repeat(n / 2), ")".repeat(n / 2))),
        ("long-string", format!(".asciz \"{}\"", "x".repeat(n))),
        ("long-comment", format!("#{}", "c".repeat(n))),
        ("word-list", format!(".word {}", "1, ".repeat(n / 3))),
        ("unterminated-macro", format!(".macro m\n{}", "nop\n".repeat(n / 4))),
        ("many-unterminated-macros", ".macro m\n".repeat(n / 9)),
        ("many-closed-macros", ".macro m (%a)\n    mv t0, %a\n.endmacro\n".repeat(n / 36)),
        ("macro-closed-far-away", format!(".macro m\n{}.endmacro\nmain:\n    li a7, 10\n    ecall\n", "    nop\n".repeat(n / 8))),
        ("sp-overflow-chain", format!("main:\n{}    li a7, 10\n    ecall\n", "    addi sp, sp, -2147483648\n".repeat(3 + rng.below(3)))),
        ("constant-chain", format!("main:\n    li t0, 2147483647\n{}    li a7, 10\n    ecall\n", "    add t0, t0, t0\n    mul t0, t0, t0\n    slli t0, t0, 31\n".repeat(n / 60 + 1))),
        ("long-straight-line", format!("main:\n{}    li a7, 10\n    ecall\n", "    addi t0, t0, 1\n".repeat(n / 18))),
        ("many-small-functions", {
            let k = n / 60 + 1;
            let mut s = String::from("main:\n");
            for i in 0..k {
                s.push_str(&format!("    jal f{i}\n"));
            }
            s.push_str("    li a7, 10\n    ecall\n");
            for i in 0..k {
                s.push_str(&format!("f{i}:\n    addi a0, a0, 1\n    ret\n"));
            }
            s
        }),
        ("branch-ladder", {
            let k = n / 40 + 1;
            let mut s = String::from("main:\n");
            for i in 0..k {
                s.push_str(&format!("b{i}:\n    addi t0, t0, 1\n    bne t0, t1, b{}\n", (i * 7 + 3) % k));
            }
            s.push_str("    li a7, 10\n    ecall\n");
            s
        }),
    ]
}

/// Valid programs with odd *semantics*: a wild program (or a hand-written call-graph shape) with a
/// few instruction-level mutations that keep it parseable but break every assumption a dataflow
/// analysis may silently rely on - branches and jumps retargeted to arbitrary labels, returns turned
/// into jumps and the reverse, the stack pointer reloaded from memory / copied to and from a frame
/// pointer / moved inside loops, narrow stores through such a stack pointer, calls into the middle of
/// functions, and labels that carry names the analyzer uses internally.
pub fn semantic_mutant(rng: &mut Rng) -> crate::ast::Program {
    use crate::ast::{AluOp, Cond, Ins, Line, LoadW, StoreW, SP};
    let mut p = match rng.below(5) {
        0 => {
            let s = crate::shapes::call_graph_shapes(rng);
            let i = rng.below(s.len());
            s[i].prog.clone()
        }
        1 => crate::shapes::shared_tail_family(rng).prog,
        2 => crate::shapes::trap_handler_family(rng).prog,
        _ => gen::generate(rng, &Profile::wild_static(), None).prog,
    };
    let labels: Vec<String> = p.lines.iter().filter_map(|l| if let Line::Label(s) = l { Some(s.clone()) } else { None }).collect();
    if labels.is_empty() {
        return p;
    }
    let n_mut = 1 + rng.below(5);
    for _ in 0..n_mut {
        let ins_at: Vec<usize> = p.lines.iter().enumerate().filter(|(_, l)| matches!(l, Line::Ins(_))).map(|(i, _)| i).collect();
        if ins_at.is_empty() {
            break;
        }
        let at = ins_at[rng.below(ins_at.len())];
        let lab = labels[rng.below(labels.len())].clone();
        let fp = *rng.pick(&[8u8, 9, 5, 10]);
        let off = *rng.pick(&[-16, -8, -4, -3, -1, 0, 1, 4, 8, 12]);
        match rng.below(14) {
            12 => {
                // a jump that also defines a register (`jal t0, label`: neither a call nor a plain jump)
                let rd = *rng.pick(&[5u8, 6, 11, 12, 28, 9]);
                p.lines[at] = Line::Ins(Ins::Jal { rd, label: lab });
            }
            13 => {
                // every plain jump of the program links into some register
                let rd = *rng.pick(&[5u8, 6, 11, 28]);
                for l in p.lines.iter_mut() {
                    if let Line::Ins(Ins::Jal { rd: r @ 0, .. }) = l {
                        if rng.chance(0.6) {
                            *r = rd;
                        }
                    }
                }
            }
            0 => {
                // retarget a branch / jump / call
                if let Line::Ins(i) = &p.lines[at] {
                    p.lines[at] = Line::Ins(i.map_label(&|_| lab.clone()));
                }
            }
            1 => p.lines[at] = Line::Ins(Ins::Load { w: LoadW::W, rd: SP, off, base: SP }),
            2 => p.lines[at] = Line::Ins(Ins::AluI { op: AluOp::Add, rd: fp, rs1: SP, imm: *rng.pick(&[0, 16, -16]) }),
            3 => p.lines[at] = Line::Ins(Ins::AluI { op: AluOp::Add, rd: SP, rs1: fp, imm: *rng.pick(&[0, 16, -16]) }),
            4 => p.lines[at] = Line::Ins(Ins::Store { w: *rng.pick(&[StoreW::B, StoreW::H, StoreW::W]), rs2: *rng.pick(&[0u8, fp, SP, 6]), off, base: SP }),
            5 => p.lines[at] = Line::Ins(Ins::Load { w: LoadW::W, rd: *rng.pick(&[fp, 6, 1]), off, base: SP }),
            6 => {
                // a return becomes a jump, anything else becomes a return
                let is_ret = matches!(&p.lines[at], Line::Ins(i) if i.is_ret());
                p.lines[at] = Line::Ins(if is_ret { Ins::j(&lab) } else { Ins::ret() });
            }
            7 => p.lines.insert(at, Line::Ins(Ins::Branch { c: *rng.pick(&[Cond::Eq, Cond::Ne, Cond::Lt, Cond::Geu]), rs1: 10, rs2: *rng.pick(&[0u8, 11]), label: lab })),
            8 => p.lines.insert(at, Line::Ins(Ins::call(&lab))),
            9 => p.lines.insert(at, Line::Ins(Ins::AluI { op: AluOp::Add, rd: SP, rs1: SP, imm: *rng.pick(&[-16, 16, 4, -4]) })),
            10 => {
                // a label gets a name the analyzer uses itself (or that looks like something else)
                let new = *rng.pick(&["__return__", "__return__", "return", "main", "_start", "ra_", "L0"]);
                if !labels.iter().any(|l| l == new) {
                    for l in p.lines.iter_mut() {
                        match l {
                            Line::Label(s) if *s == lab => *s = new.to_string(),
                            Line::Ins(i) => *i = i.map_label(&|x| if x == lab { new.to_string() } else { x.to_string() }),
                            _ => {}
                        }
                    }
                }
            }
            _ => p.lines[at] = Line::Ins(Ins::j(&lab)),
        }
    }
    p
}
