//! Program generators.
//!
//! One structured generator produces whole programs (top-level code + functions) following the
//! calling convention *by construction*; a `Profile` relaxes individual clauses at random
//! (G-wild) and an optional `Inject` plants exactly one violation of a chosen class (C05).
//!
//! The generator tracks, along the path it is emitting, the set of *definitely assigned*
//! registers and the set of *pending* registers (assigned, value not yet read). A register is
//! only read when definitely assigned; it is only overwritten when not pending (or when the
//! overwriting instruction itself reads it); pending values are consumed by sinks before
//! calls, ecalls, returns and the end of conditional arms that defined them.

use crate::ast::*;
use crate::rng::Rng;
use serde::{Deserialize, Serialize};

#[derive(Clone, Debug)]
pub struct Profile {
    pub max_funcs: usize,
    pub max_depth: usize,
    pub stmts: (usize, usize),
    pub p_recursive: f64,
    pub p_early_return: f64,
    pub p_mid_exit: f64,
    pub p_ecall: f64,
    pub p_call: f64,
    pub p_spill: f64,
    pub p_boundary_const: f64,
    pub all_ops: bool,
    // ---- relaxations (0 for conforming programs)
    pub p_dead_def: f64,
    pub p_temp_across_call: f64,
    pub p_read_undefined: f64,
    pub p_partial_width: f64,
    pub p_redefine_after_spill: f64,
    pub p_read_saved_original: f64,
    pub p_sub_from_const: f64,
    pub p_div_zero_zero: f64,
    pub p_stale_slot_after_pop: f64,
    /// several labels on one function entry
    pub p_alias_label: f64,
    /// `jal tN, label` (a jump that links into a register other than ra) instead of `j label`
    pub p_jal_other_rd: f64,
    /// a conditional branch whose target is a function entry (static workloads only: the
    /// programs are not meant to be executed)
    pub p_branch_to_function: f64,
    /// `la t, fn; jalr ra, t, 0` (surface / parser workloads only)
    pub p_indirect_call: f64,
    /// arithmetic whose destination is x0
    pub p_write_zero: f64,
    /// sp is set from another register for a few stores and then restored from a copy
    pub p_sp_excursion: f64,
    /// the top-level code keeps values in a stack frame of its own
    pub p_main_frame: f64,
    /// a piece of the data segment (label + data) stands between two functions
    pub p_data_island: f64,
    /// a saved register is set up as frame pointer (the value of sp at entry) and used for address arithmetic
    pub p_frame_pointer: f64,
    /// layout: `j main` first, then the functions, main last (nothing behind its exit)
    pub p_functions_first: f64,
    /// a function gets an error-exit block behind its epilogue (the exit ecall is then the last
    /// instruction of the function, directly in front of the next function)
    pub p_tail_exit: f64,
    /// CSR reads / writes / set-bits on user-level CSRs other than utvec (non-conforming profiles only)
    pub p_csr: f64,
}

impl Profile {
    /// Conforming programs (C04 and the base of C05/C10/C13/C14/C15/C18).
    pub fn conforming() -> Profile {
        Profile {
            max_funcs: 4,
            max_depth: 2,
            stmts: (1, 5),
            p_recursive: 0.25,
            p_early_return: 0.3,
            p_mid_exit: 0.08,
            p_ecall: 0.15,
            p_call: 0.25,
            p_spill: 0.2,
            p_boundary_const: 0.02,
            all_ops: true,
            p_dead_def: 0.0,
            p_temp_across_call: 0.0,
            p_read_undefined: 0.0,
            p_partial_width: 0.06,
            p_redefine_after_spill: 0.0,
            p_read_saved_original: 0.0,
            p_sub_from_const: 0.0,
            p_div_zero_zero: 0.0,
            p_stale_slot_after_pop: 0.0,
            p_alias_label: 0.15,
            p_jal_other_rd: 0.0,
            p_branch_to_function: 0.0,
            p_indirect_call: 0.0,
            p_write_zero: 0.0,
            p_sp_excursion: 0.0,
            p_main_frame: 0.3,
            p_data_island: 0.15,
            p_frame_pointer: 0.2,
            p_functions_first: 0.25,
            p_tail_exit: 0.12,
            p_csr: 0.0,
        }
    }
    /// Wild programs with indirect calls (`jalr`), for parser / surface workloads (not executed).
    pub fn wild_surface() -> Profile {
        Profile { p_indirect_call: 0.1, ..Profile::wild() }
    }
    /// Wild programs that additionally branch conditionally into functions (not executable).
    pub fn wild_static() -> Profile {
        Profile { p_branch_to_function: 0.08, ..Profile::wild() }
    }
    /// Supported-subset programs that need not be conforming (C01, C02, C03, C11, C12).
    pub fn wild() -> Profile {
        Profile {
            max_funcs: 4,
            max_depth: 2,
            stmts: (1, 6),
            p_recursive: 0.25,
            p_early_return: 0.3,
            p_mid_exit: 0.1,
            p_ecall: 0.15,
            p_call: 0.25,
            p_spill: 0.35,
            p_boundary_const: 0.15,
            all_ops: true,
            p_dead_def: 0.15,
            p_temp_across_call: 0.1,
            p_read_undefined: 0.05,
            p_partial_width: 0.08,
            p_redefine_after_spill: 0.1,
            p_read_saved_original: 0.05,
            p_sub_from_const: 0.05,
            p_div_zero_zero: 0.02,
            p_stale_slot_after_pop: 0.02,
            p_alias_label: 0.15,
            p_jal_other_rd: 0.15,
            p_branch_to_function: 0.0,
            p_indirect_call: 0.0,
            p_write_zero: 0.04,
            p_sp_excursion: 0.03,
            p_main_frame: 0.3,
            p_data_island: 0.15,
            p_frame_pointer: 0.2,
            p_functions_first: 0.25,
            p_tail_exit: 0.12,
            p_csr: 0.03,
        }
    }
}

#[derive(Clone, Copy, Debug, PartialEq, Eq, Hash, Serialize, Deserialize)]
pub enum Inject {
    SavedNoRestore,
    SavedUnsavedWrite,
    SpNoRestore,
    RaClobbered,
    TempAfterCall,
    ReadUnassigned,
    DeadAssign,
    WriteZero,
    StackAbove,
    InData,
    UnknownEcall,
    Unreachable,
    JumpToFunction,
    FallThrough,
    FirstIsFunction,
}

pub const ALL_INJECT: [Inject; 15] = [
    Inject::SavedNoRestore,
    Inject::SavedUnsavedWrite,
    Inject::SpNoRestore,
    Inject::RaClobbered,
    Inject::TempAfterCall,
    Inject::ReadUnassigned,
    Inject::DeadAssign,
    Inject::WriteZero,
    Inject::StackAbove,
    Inject::InData,
    Inject::UnknownEcall,
    Inject::Unreachable,
    Inject::JumpToFunction,
    Inject::FallThrough,
    Inject::FirstIsFunction,
];

impl Inject {
    pub fn name(self) -> &'static str {
        match self {
            Inject::SavedNoRestore => "saved-no-restore",
            Inject::SavedUnsavedWrite => "saved-unsaved-write",
            Inject::SpNoRestore => "sp-no-restore",
            Inject::RaClobbered => "ra-clobbered",
            Inject::TempAfterCall => "temp-after-call",
            Inject::ReadUnassigned => "read-unassigned",
            Inject::DeadAssign => "dead-assign",
            Inject::WriteZero => "write-zero",
            Inject::StackAbove => "stack-above-entry-sp",
            Inject::InData => "instruction-in-data",
            Inject::UnknownEcall => "unknown-ecall",
            Inject::Unreachable => "unreachable-block",
            Inject::JumpToFunction => "jump-to-function",
            Inject::FallThrough => "fall-through-into-function",
            Inject::FirstIsFunction => "first-line-is-function",
        }
    }
}

/// Where the planted violation is, in terms of the *violating* program.
#[derive(Clone, Debug, Serialize, Deserialize)]
pub struct Site {
    pub kind: Inject,
    /// indexes into `viol.lines` of the instructions on which the diagnostic may sit
    pub lines: Vec<usize>,
    /// register the diagnostic is about (when the class is about a register operand)
    pub reg: Option<Reg>,
    /// for label-located diagnostics (fall-through): the label's name
    pub label: Option<String>,
    /// related location (jump-to-function: the jump)
    pub related_lines: Vec<usize>,
}

#[derive(Clone, Debug, Serialize, Deserialize)]
pub struct FnInfo {
    pub name: String,
    pub args: Vec<Reg>,
    pub rets: Vec<Reg>,
    pub saved: Vec<Reg>,
    pub frame: i32,
    pub leaf: bool,
    pub recursive: bool,
}

#[derive(Clone, Debug)]
pub struct Generated {
    /// the program (with the planted violation, if one was requested and could be placed)
    pub prog: Program,
    /// the same program without the planted violation (== prog when none)
    pub base: Program,
    pub site: Option<Site>,
    pub funcs: Vec<FnInfo>,
}

#[derive(Clone, Copy, PartialEq, Eq, Debug)]
enum Flag {
    Both,
    BaseOnly,
    ViolOnly,
}

#[derive(Clone, Debug)]
struct St {
    defined: u32,
    pending: u32,
    /// frame slots (offset from current sp) that are definitely stored with a full word
    stored: Vec<i32>,
}

fn bit(r: Reg) -> u32 {
    1u32 << r
}
fn mask(rs: &[Reg]) -> u32 {
    rs.iter().fold(0, |m, r| m | bit(*r))
}
fn regs_of(m: u32) -> Vec<Reg> {
    (0..32).filter(|r| m & (1 << r) != 0).map(|r| r as Reg).collect()
}

const CALLER_SAVED: u32 = 0xF003_FCE0; // t0-2 (5,6,7), a0-7 (10..17), t3-6 (28..31)
const SAVED_MASK: u32 = 0x0FFC_0300; // s0,s1 (8,9), s2-11 (18..27)
const TEMP_MASK: u32 = 0xF000_00E0;

struct Sig {
    name: String,
    /// further labels on the same entry
    aliases: Vec<String>,
    args: Vec<Reg>,
    rets: Vec<Reg>,
    recursive: bool,
}

struct G<'a> {
    rng: &'a mut Rng,
    prof: &'a Profile,
    out: Vec<(Line, Flag)>,
    next_label: usize,
    sigs: Vec<Sig>,
    inject: Option<Inject>,
    /// the planted site, as indexes into `out`
    site_out: Vec<usize>,
    site_related: Vec<usize>,
    site_reg: Option<Reg>,
    site_label: Option<String>,
    injected: bool,
    /// which function (index into sigs, usize::MAX = main) the injection targets
    inject_fn: usize,
    /// opportunities left before the injection triggers
    inject_skip: usize,
    data_words: usize,
    /// registers read by instructions emitted since the last `sync` (base program only)
    read_log: u32,
}

struct F {
    st: St,
    is_main: bool,
    me: usize,
    frame: i32,
    ra_off: Option<i32>,
    saved: Vec<(Reg, i32)>,
    spare: Vec<i32>,
    acc: Reg,
    /// registers the generator must not pick as destinations
    reserved: u32,
    /// register this function never touches (planted reads / dead writes use it)
    never: Reg,
    depth: usize,
    rets: Vec<Reg>,
    pool: u32,
    /// index in `out` of the lines of the epilogues emitted so far: (restore ra, restores, close)
    made_call: bool,
    rec_src: Option<Reg>,
    calls_emitted: usize,
    /// > 0: neither calls nor ecalls may be generated (leaf function, or a loop whose counter
    /// lives in a caller-saved register)
    no_calls: u32,
    /// > 0: no ecalls (the accumulator is caller-saved and there is no slot to keep it in)
    no_ecalls: u32,
}

impl<'a> G<'a> {
    fn label(&mut self, prefix: &str) -> String {
        self.next_label += 1;
        format!("{prefix}_{}", self.next_label)
    }
    fn emit(&mut self, i: Ins) -> usize {
        self.emit_flag(i, Flag::Both)
    }
    fn emit_flag(&mut self, i: Ins, f: Flag) -> usize {
        if f != Flag::ViolOnly {
            // a value counts as consumed exactly when an instruction reading it is emitted
            self.read_log |= mask(&i.reads());
        }
        self.out.push((Line::Ins(i), f));
        self.out.len() - 1
    }
    /// Apply the reads of the instructions emitted so far to the pending set.
    fn sync(&mut self, f: &mut F) {
        f.st.pending &= !self.read_log;
        self.read_log = 0;
    }
    fn emit_label(&mut self, l: &str) {
        self.out.push((Line::Label(l.to_string()), Flag::Both));
    }

    /// Should the planted violation of kind `k` be placed at this opportunity?
    fn want(&mut self, k: Inject, f: &F) -> bool {
        if self.injected || self.inject != Some(k) {
            return false;
        }
        let here = if f.is_main { usize::MAX } else { f.me };
        // classes that need a call, an ecall or an if/else at the site take the first opportunity in
        // any function (the chosen one often has none)
        let anywhere = matches!(k, Inject::TempAfterCall | Inject::UnknownEcall | Inject::Unreachable);
        if self.inject_fn != here && !anywhere {
            return false;
        }
        if self.inject_skip > 0 {
            self.inject_skip -= 1;
            return false;
        }
        true
    }

    fn imm12(&mut self) -> i32 {
        if self.rng.chance(self.prof.p_boundary_const) {
            *self.rng.pick(&[2047, -2048, 0, -1, 1, 1024, -1024, 10, 9, 92, 39])
        } else {
            self.rng.range(-64, 64) as i32
        }
    }
    fn imm32(&mut self) -> i32 {
        if self.rng.chance(self.prof.p_boundary_const) {
            self.rng.interesting_i32()
        } else {
            self.rng.range(-300, 300) as i32
        }
    }

    // ----- register choice -------------------------------------------------------------

    /// A register that may be read now; consumes it.
    fn src(&mut self, f: &mut F) -> Reg {
        self.sync(f);
        let readable = f.st.defined & !bit(SP) & !bit(RA) & !1;
        let pend = f.st.pending & readable & !bit(f.acc);
        let r = if pend != 0 && self.rng.chance(0.7) {
            *self.rng.pick(&regs_of(pend))
        } else if readable != 0 && !self.rng.chance(0.05) {
            *self.rng.pick(&regs_of(readable))
        } else {
            ZERO
        };
        if r != ZERO && self.rng.chance(self.prof.p_read_undefined) {
            // relaxation: read something that may not be assigned
            let any = f.pool & !bit(f.never);
            if any != 0 {
                return *self.rng.pick(&regs_of(any));
            }
        }
        r
    }

    /// A register that may be overwritten now (not pending unless in `reads`).
    fn dst(&mut self, f: &mut F, reads: &[Reg]) -> Option<Reg> {
        self.sync(f);
        let mut ok = f.pool & !f.reserved & !bit(f.acc) & !bit(f.never);
        let blocked = f.st.pending & !mask(reads);
        if !self.rng.chance(self.prof.p_dead_def) {
            ok &= !blocked;
        }
        if ok == 0 {
            return None;
        }
        Some(*self.rng.pick(&regs_of(ok)))
    }

    fn define(&mut self, f: &mut F, r: Reg) {
        self.sync(f);
        if r != ZERO {
            f.st.defined |= bit(r);
            f.st.pending |= bit(r);
        }
    }

    // ----- sinks -----------------------------------------------------------------------

    /// Consume every pending register in `m` (never the accumulator itself).
    fn flush(&mut self, f: &mut F, m: u32) {
        self.sync(f);
        let mut todo = regs_of(f.st.pending & m & !bit(f.acc) & !1);
        self.rng.shuffle(&mut todo);
        for r in todo {
            self.sync(f);
            if f.st.pending & bit(r) == 0 {
                continue;
            }
            if self.rng.chance(self.prof.p_dead_def) {
                // relaxation: leave the value unread
                f.st.pending &= !bit(r);
                continue;
            }
            self.sink(f, r);
        }
    }

    fn sink(&mut self, f: &mut F, r: Reg) {
        self.sync(f);
        f.st.pending &= !bit(r);
        let have_acc = f.st.defined & bit(f.acc) != 0;
        let choice = self.rng.below(10);
        if choice < 3 && !f.spare.is_empty() && f.frame > 0 {
            let off = *self.rng.pick(&f.spare);
            self.emit(Ins::sw(r, off, SP));
            if !f.st.stored.contains(&off) {
                f.st.stored.push(off);
            }
        } else if have_acc {
            let op = *self.rng.pick(&[AluOp::Add, AluOp::Xor, AluOp::Or, AluOp::Sub]);
            self.emit(Ins::Alu { op, rd: f.acc, rs1: f.acc, rs2: r });
            self.sync(f);
            f.st.pending |= bit(f.acc);
        } else {
            // first use of the accumulator: initialise it from the value
            self.emit(Ins::mv(f.acc, r));
            f.st.defined |= bit(f.acc);
            self.sync(f);
            f.st.pending |= bit(f.acc);
        }
    }

    // ----- statements ------------------------------------------------------------------

    fn stmt_def(&mut self, f: &mut F) {
        let ops: &[AluOp] = if self.prof.all_ops { &ALL_ALU } else { &ALL_ALU[..10] };
        // ---- shapes that only the non-conforming profile produces
        if self.rng.chance(self.prof.p_sub_from_const) && !f.is_main {
            // constant (op) entry-relative value
            if let Some(t) = self.dst(f, &[]) {
                let v = self.rng.range(-100, 100) as i32;
                self.emit(Ins::li(t, v));
                self.define(f, t);
                if let Some(rd) = self.dst(f, &[t]) {
                    let op = *self.rng.pick(&[AluOp::Sub, AluOp::Add, AluOp::Sub, AluOp::Xor]);
                    let (a, b) = if self.rng.chance(0.7) { (t, SP) } else { (SP, t) };
                    self.emit(Ins::Alu { op, rd, rs1: a, rs2: b });
                    self.define(f, rd);
                }
            }
            return;
        }
        if self.rng.chance(self.prof.p_div_zero_zero) {
            if let Some(rd) = self.dst(f, &[]) {
                let op = *self.rng.pick(&[AluOp::Div, AluOp::Divu, AluOp::Rem, AluOp::Remu, AluOp::Mulh, AluOp::Sltu]);
                self.emit(Ins::Alu { op, rd, rs1: ZERO, rs2: ZERO });
                self.define(f, rd);
            }
            return;
        }
        if self.rng.chance(self.prof.p_stale_slot_after_pop) && !f.is_main && f.no_calls == 0 && f.me + 1 < self.sigs.len() {
            // push a value, pop the frame extension, call, push again and reload
            let s = self.src(f);
            self.emit(Ins::addi(SP, SP, -16));
            self.emit(Ins::sw(s, 4, SP));
            self.emit(Ins::addi(SP, SP, 16));
            let callee = f.me + 1 + self.rng.below(self.sigs.len() - f.me - 1);
            self.call(f, callee, None);
            if let Some(rd) = self.dst(f, &[]) {
                self.emit(Ins::addi(SP, SP, -16));
                self.emit(Ins::lw(rd, 4, SP));
                self.emit(Ins::addi(SP, SP, 16));
                self.define(f, rd);
            }
            return;
        }
        if self.prof.p_sp_excursion > 0.0 && !f.is_main && f.frame > 0 && self.rng.chance(self.prof.p_sp_excursion) {
            // the stack pointer goes on an excursion: it is set from some other register (whose
            // value the analysis may know as "entry value + constant"), a few stores and loads go
            // through it, then it comes back from a copy and a frame slot is read
            if let Some(keep) = self.dst(f, &[]) {
                self.emit(Ins::addi(keep, SP, 0));
                f.reserved |= bit(keep);
                // (never the copy itself: the stores would land in this function's own frame and
                // break the convention the property presupposes of callees)
                let cands: Vec<Reg> = [8u8, 9, 18, 10, 11, 5].into_iter().filter(|r| *r != keep).collect();
                let from = *self.rng.pick(&cands);
                let k = *self.rng.pick(&[-16, -32, 0, 16, -4]);
                self.emit(Ins::addi(SP, from, k));
                for _ in 0..1 + self.rng.below(2) {
                    let r = self.src(f);
                    let off = *self.rng.pick(&[0, 4, 8, 12, -4, 16]);
                    let w = if self.rng.chance(0.3) { *self.rng.pick(&[StoreW::B, StoreW::H]) } else { StoreW::W };
                    self.emit(Ins::Store { w, rs2: r, off, base: SP });
                }
                self.emit(Ins::addi(SP, keep, 0));
                f.reserved &= !bit(keep);
                self.define(f, keep);
                let slots: Vec<i32> = f.st.stored.clone();
                if let (Some(off), Some(rd)) = (slots.first().copied(), self.dst(f, &[])) {
                    self.emit(Ins::lw(rd, off, SP));
                    self.define(f, rd);
                }
            }
            return;
        }
        if self.prof.p_csr > 0.0 && self.rng.chance(self.prof.p_csr) {
            let csr = *self.rng.pick(&[0u32, 0x40, 0x41, 0x42, 0x43, 0x40]);
            let a = if self.rng.chance(0.3) { ZERO } else { self.src(f) };
            let rd = if self.rng.chance(0.25) { Some(ZERO) } else { self.dst(f, &[a]) };
            if let Some(rd) = rd {
                let ins = match self.rng.below(3) {
                    0 => Ins::Csrrw { rd, csr, rs1: a },
                    1 => Ins::Csrrs { rd, csr, rs1: a },
                    _ => Ins::Csrrwi { rd, csr, imm: self.rng.range(0, 31) as i32 },
                };
                self.emit(ins);
                if rd != ZERO {
                    self.define(f, rd);
                }
            }
            return;
        }
        match self.rng.below(10) {
            0..=2 => {
                if let Some(rd) = self.dst(f, &[]) {
                    let v = self.imm32();
                    self.emit(Ins::li(rd, v));
                    self.define(f, rd);
                }
            }
            3..=5 => {
                let a = self.src(f);
                let b = self.src(f);
                if self.rng.chance(self.prof.p_write_zero) {
                    // result thrown away into x0
                    let op = *self.rng.pick(ops);
                    self.emit(Ins::Alu { op, rd: ZERO, rs1: a, rs2: b });
                    return;
                }
                if let Some(rd) = self.dst(f, &[a, b]) {
                    let op = *self.rng.pick(ops);
                    self.emit(Ins::Alu { op, rd, rs1: a, rs2: b });
                    self.define(f, rd);
                }
            }
            6..=7 => {
                let a = self.src(f);
                if let Some(rd) = self.dst(f, &[a]) {
                    let op = *self.rng.pick(&IMM_ALU);
                    let imm = match op {
                        AluOp::Sll | AluOp::Srl | AluOp::Sra => self.rng.range(0, 31) as i32,
                        _ => self.imm12(),
                    };
                    self.emit(Ins::AluI { op, rd, rs1: a, imm });
                    self.define(f, rd);
                }
            }
            8 => {
                // load a word from the data section
                if let (Some(ra_), n) = (self.dst(f, &[]), self.data_words) {
                    if n > 0 {
                        let k = self.rng.below(n) as i32;
                        self.emit(Ins::La { rd: ra_, label: "dat_w".into() });
                        self.emit(Ins::lw(ra_, 4 * k, ra_));
                        self.define(f, ra_);
                    }
                }
            }
            _ => {
                if let Some(rd) = self.dst(f, &[]) {
                    let v = self.rng.range(0, 0xfffff) as i32;
                    self.emit(Ins::Lui { rd, imm: v });
                    self.define(f, rd);
                }
            }
        }
    }

    /// Spill a value to a frame slot and (maybe later) reload it.
    fn stmt_spill(&mut self, f: &mut F) {
        if f.frame == 0 || f.spare.is_empty() {
            return self.stmt_def(f);
        }
        let off = *self.rng.pick(&f.spare);
        if f.st.stored.contains(&off) && self.rng.chance(0.5) {
            // reload
            if let Some(rd) = self.dst(f, &[]) {
                let w = if self.rng.chance(self.prof.p_partial_width) {
                    *self.rng.pick(&[LoadW::B, LoadW::Bu, LoadW::H, LoadW::Hu])
                } else {
                    LoadW::W
                };
                self.emit(Ins::Load { w, rd, off, base: SP });
                self.define(f, rd);
            }
            return;
        }
        let r = self.src(f);
        let w = if self.rng.chance(self.prof.p_partial_width) {
            *self.rng.pick(&[StoreW::B, StoreW::H])
        } else {
            StoreW::W
        };
        // narrow stores may hit any byte / half of the slot
        let sub = match w {
            StoreW::B => self.rng.below(4) as i32,
            StoreW::H => 2 * self.rng.below(2) as i32,
            StoreW::W => 0,
        };
        self.emit(Ins::Store { w, rs2: r, off: off + sub, base: SP });
        if w == StoreW::W {
            if !f.st.stored.contains(&off) {
                f.st.stored.push(off);
            }
        } else if f.st.stored.contains(&off) && self.rng.chance(0.6) {
            // read the whole slot back after the narrow store
            if let Some(rd) = self.dst(f, &[]) {
                self.emit(Ins::lw(rd, off, SP));
                self.define(f, rd);
            }
        }
        if r != ZERO && self.rng.chance(self.prof.p_redefine_after_spill) && f.pool & bit(r) != 0
            && f.reserved & bit(r) == 0 && r != f.acc && f.st.pending & bit(r) == 0
        {
            // relaxation: overwrite the spilled register, then reload the slot
            let v = self.imm32();
            self.emit(Ins::li(r, v));
            self.define(f, r);
            if w == StoreW::W {
                if let Some(rd) = self.dst(f, &[]) {
                    self.emit(Ins::lw(rd, off, SP));
                    self.define(f, rd);
                }
            }
        }
    }

    fn stmt_ecall(&mut self, f: &mut F) {
        if f.no_calls > 0 || f.no_ecalls > 0 {
            return self.stmt_def(f);
        }
        // every integer-register service of RARS
        let num = *self.rng.pick(&[1u32, 4, 5, 9, 11, 12, 30, 31, 32, 33, 34, 35, 36, 40, 41, 42, 50, 51, 55, 56, 57, 59, 62, 64, 1024]);
        let (reads, writes, _) = crate::machine::ecall_table(num).expect("table");
        // arguments first (they may use temporaries), a7 last
        for r in reads {
            if num == 4 {
                self.sync(f);
                if f.st.pending & bit(*r) != 0 {
                    self.sink(f, *r);
                }
                self.emit(Ins::La { rd: *r, label: "dat_s".into() });
            } else if f.st.pending & bit(*r) != 0 && f.st.defined & bit(*r) != 0 {
                // pass the pending value through
            } else {
                let s = self.src(f);
                if s == ZERO || self.rng.chance(0.4) {
                    let v = self.rng.range(0, 9) as i32;
                    self.emit(Ins::li(*r, v));
                } else {
                    self.emit(Ins::mv(*r, s));
                }
            }
            f.st.defined |= bit(*r);
            self.sync(f);
            f.st.pending |= bit(*r);
        }
        // everything caller-saved that is still pending must be consumed first
        let keep = mask(reads);
        self.flush(f, CALLER_SAVED & !keep);
        self.protect_acc_before_call(f);
        let base_only_li = self.want(Inject::UnknownEcall, f);
        if base_only_li {
            self.emit_flag(Ins::li(A7, num as i32), Flag::BaseOnly);
            // violating variant: a7 comes from memory, so its value is not a known constant
            // (directly, or copied / combined with the zero register in either operand order)
            let via = f.never;
            match self.rng.below(7) {
                0 | 1 => {
                    self.emit_flag(Ins::La { rd: A7, label: "dat_w".into() }, Flag::ViolOnly);
                    self.emit_flag(Ins::lw(A7, 0, A7), Flag::ViolOnly);
                }
                k => {
                    self.emit_flag(Ins::La { rd: via, label: "dat_w".into() }, Flag::ViolOnly);
                    self.emit_flag(Ins::lw(via, 0, via), Flag::ViolOnly);
                    let ins = match k {
                        2 => Ins::Alu { op: AluOp::Add, rd: A7, rs1: ZERO, rs2: via },
                        3 => Ins::Alu { op: AluOp::Add, rd: A7, rs1: via, rs2: ZERO },
                        4 => Ins::Alu { op: *self.rng.pick(&[AluOp::Or, AluOp::Xor, AluOp::Sub]), rd: A7, rs1: ZERO, rs2: via },
                        5 => Ins::mv(A7, via),
                        _ => Ins::Alu { op: *self.rng.pick(&[AluOp::Or, AluOp::Xor, AluOp::Sub]), rd: A7, rs1: via, rs2: ZERO },
                    };
                    self.emit_flag(ins, Flag::ViolOnly);
                }
            }
        } else if self.rng.chance(0.15) {
            // the number travels through another register first
            let via = f.never;
            self.emit(Ins::li(via, num as i32));
            self.emit(Ins::mv(A7, via));
        } else {
            self.emit(Ins::li(A7, num as i32));
        }
        let e = self.emit(Ins::Ecall);
        if base_only_li {
            self.injected = true;
            self.site_out.push(e);
        }
        self.sync(f);
        f.st.pending &= !CALLER_SAVED;
        f.st.defined &= !CALLER_SAVED;
        for w in writes {
            f.st.defined |= bit(*w);
        }
        self.restore_acc_after_call(f);
    }

    /// If the accumulator is caller-saved it has to live in the frame across calls.
    fn protect_acc_before_call(&mut self, f: &mut F) {
        if bit(f.acc) & CALLER_SAVED != 0 && f.st.defined & bit(f.acc) != 0 {
            if let Some(off) = f.spare.first().copied() {
                self.emit(Ins::sw(f.acc, off, SP));
                f.st.pending &= !bit(f.acc);
                if !f.st.stored.contains(&off) {
                    f.st.stored.push(off);
                }
            }
        }
    }
    fn restore_acc_after_call(&mut self, f: &mut F) {
        if bit(f.acc) & CALLER_SAVED != 0 {
            if let Some(off) = f.spare.first().copied() {
                if f.st.stored.contains(&off) {
                    self.emit(Ins::lw(f.acc, off, SP));
                    f.st.defined |= bit(f.acc);
                    self.sync(f);
                    f.st.pending |= bit(f.acc);
                }
            }
        }
    }

    fn stmt_call(&mut self, f: &mut F) {
        // callable: functions with a larger index (acyclic), or itself when recursive
        let mut cands: Vec<usize> = ((if f.is_main { 0 } else { f.me + 1 })..self.sigs.len()).collect();
        if f.no_calls > 0 || cands.is_empty() {
            return self.stmt_def(f);
        }
        self.rng.shuffle(&mut cands);
        let callee = cands[0];
        self.call(f, callee, None);
    }

    fn call(&mut self, f: &mut F, callee: usize, rec_arg_from: Option<Reg>) {
        let args = self.sigs[callee].args.clone();
        let rets = self.sigs[callee].rets.clone();
        let name = {
            let sg = &self.sigs[callee];
            if !sg.aliases.is_empty() && self.rng.chance(0.5) {
                sg.aliases[self.rng.below(sg.aliases.len())].clone()
            } else {
                sg.name.clone()
            }
        };
        let callee_rec = self.sigs[callee].recursive;
        // a temporary that is assigned before the call and (wrongly) read after it
        let mut stale_temp: Option<Reg> = None;
        let mut stale_temp2: Option<Reg> = None;
        let want_tac = self.inject == Some(Inject::TempAfterCall) && !self.injected;
        if want_tac || self.rng.chance(self.prof.p_temp_across_call) {
            let c = f.st.defined & TEMP_MASK & !bit(f.acc) & !mask(&args);
            if c != 0 {
                let t = *self.rng.pick(&regs_of(c));
                stale_temp = Some(t);
                let c2 = c & !bit(t);
                if c2 != 0 {
                    stale_temp2 = Some(*self.rng.pick(&regs_of(c2)));
                }
            }
        }
        for (k, a) in args.iter().enumerate() {
            if k == 0 && (callee_rec || rec_arg_from.is_some()) {
                if f.st.pending & bit(*a) != 0 {
                    self.sink(f, *a);
                }
                // first argument of a recursive function is its (small, decreasing) depth
                match rec_arg_from {
                    Some(src) => {
                        self.emit(Ins::addi(*a, src, -1));
                    }
                    None => {
                        let d = self.rng.range(0, 3) as i32;
                        self.emit(Ins::li(*a, d));
                    }
                }
            } else if f.st.pending & f.st.defined & bit(*a) != 0 && self.rng.chance(0.5) {
                // pass the pending value through
            } else {
                if f.st.pending & bit(*a) != 0 {
                    // the register still holds an unread value: consume it first
                    self.sink(f, *a);
                }
                let s = self.src(f);
                if s == ZERO || s == *a || self.rng.chance(0.3) {
                    let v = self.imm32();
                    self.emit(Ins::li(*a, v));
                } else if self.rng.chance(0.5) {
                    self.emit(Ins::mv(*a, s));
                } else {
                    let imm = self.imm12();
                    self.emit(Ins::addi(*a, s, imm));
                }
            }
            f.st.defined |= bit(*a);
            self.sync(f);
            f.st.pending |= bit(*a);
        }
        self.flush(f, CALLER_SAVED & !mask(&args));
        self.protect_acc_before_call(f);
        let call_line = self.emit(Ins::call(&name));
        f.made_call = true;
        f.calls_emitted += 1;
        self.sync(f);
        f.st.pending &= !CALLER_SAVED;
        f.st.defined &= !CALLER_SAVED;
        if let Some(t) = stale_temp {
            if self.want(Inject::TempAfterCall, f) {
                // planted: read a temporary that the call may have clobbered
                let l = if let (true, Some(t2), true) = (f.is_main, stale_temp2, self.rng.chance(0.5)) {
                    // one instruction reads two temporaries that the call may have clobbered
                    let (a, b) = if self.rng.chance(0.5) { (t, t2) } else { (t2, t) };
                    let l = self.emit_flag(Ins::Alu { op: AluOp::Add, rd: t, rs1: a, rs2: b }, Flag::ViolOnly);
                    self.emit_flag(Ins::Alu { op: AluOp::Xor, rd: f.acc, rs1: f.acc, rs2: t }, Flag::ViolOnly);
                    l
                } else if f.is_main {
                    self.emit_flag(
                        Ins::Alu { op: AluOp::Xor, rd: f.acc, rs1: f.acc, rs2: t },
                        Flag::ViolOnly,
                    )
                } else {
                    let off = f.spare.first().copied().unwrap_or(0);
                    if let (Some(t2), true) = (stale_temp2, self.rng.chance(0.5)) {
                        // one instruction reads two temporaries that the call may have clobbered
                        let (a, b) = if self.rng.chance(0.5) { (t, t2) } else { (t2, t) };
                        let op = *self.rng.pick(&[AluOp::Add, AluOp::Xor, AluOp::Sub]);
                        let l = self.emit_flag(Ins::Alu { op, rd: t, rs1: a, rs2: b }, Flag::ViolOnly);
                        self.emit_flag(Ins::sw(t, off, SP), Flag::ViolOnly);
                        l
                    } else if self.rng.chance(0.4) {
                        // the first reader also overwrites the register it reads
                        let op = *self.rng.pick(&[AluOp::Add, AluOp::Sll, AluOp::Xor]);
                        let imm = 1 + self.rng.below(7) as i32;
                        let l = self.emit_flag(Ins::AluI { op, rd: t, rs1: t, imm }, Flag::ViolOnly);
                        self.emit_flag(Ins::sw(t, off, SP), Flag::ViolOnly);
                        l
                    } else {
                        self.emit_flag(Ins::sw(t, off, SP), Flag::ViolOnly)
                    }
                };
                self.injected = true;
                self.site_out.push(l);
                self.site_reg = Some(t);
                self.site_related.push(call_line);
            } else if self.inject.is_none() {
                // relaxation (G-wild)
                f.st.defined |= bit(t);
            }
        }
        for r in &rets {
            f.st.defined |= bit(*r);
            self.sync(f);
            f.st.pending |= bit(*r);
        }
        self.restore_acc_after_call(f);
    }

    fn block(&mut self, f: &mut F) {
        let n = self.rng.range(self.prof.stmts.0 as i64, self.prof.stmts.1 as i64) as usize;
        for _ in 0..n {
            self.planted_simple(f);
            if self.rng.chance(self.prof.p_indirect_call) && !self.sigs.is_empty() {
                // indirect call through a register
                let k = self.rng.below(self.sigs.len());
                let name = self.sigs[k].name.clone();
                if let Some(t) = self.dst(f, &[]) {
                    self.emit(Ins::La { rd: t, label: name });
                    self.emit(Ins::Jalr { rd: RA, rs1: t, imm: 0 });
                    self.sync(f);
                }
            }
            if self.rng.chance(self.prof.p_branch_to_function) && !self.sigs.is_empty() {
                // conditional branch straight to a function entry
                let k = self.rng.below(self.sigs.len());
                let name = self.sigs[k].name.clone();
                let (c, a, b) = self.cond_regs(f);
                self.emit(Ins::Branch { c, rs1: a, rs2: b, label: name });
            }
            let c = self.rng.below(100) as f64 / 100.0;
            let can_nest = f.depth < self.prof.max_depth;
            if c < self.prof.p_call {
                self.stmt_call(f);
            } else if c < self.prof.p_call + self.prof.p_ecall {
                self.stmt_ecall(f);
            } else if c < self.prof.p_call + self.prof.p_ecall + self.prof.p_spill {
                self.stmt_spill(f);
            } else if can_nest && c < 0.80 {
                if self.rng.chance(0.55) {
                    self.stmt_if(f);
                } else {
                    self.stmt_loop(f);
                }
            } else {
                self.stmt_def(f);
            }
        }
    }

    /// Planted violations that are a single inserted instruction.
    fn planted_simple(&mut self, f: &mut F) {
        if self.inject == Some(Inject::ReadUnassigned)
            && (f.frame > 0 || f.st.defined & bit(f.acc) != 0)
            && self.want(Inject::ReadUnassigned, f)
        {
            let l = if f.is_main && f.calls_emitted == 0 && f.st.defined & bit(f.acc) != 0 && self.rng.chance(0.4) {
                // top-level code reads the return address: nobody called it, ra was never assigned
                // (before the first call of the program; a call assigns ra)
                let l = self.emit_flag(Ins::Alu { op: AluOp::Add, rd: f.acc, rs1: f.acc, rs2: RA }, Flag::ViolOnly);
                self.injected = true;
                self.site_out.push(l);
                self.site_reg = Some(RA);
                return;
            } else if f.st.defined & bit(f.acc) != 0 && self.rng.chance(0.3) {
                // with an innocent sibling: on the other arm of a branch the register is assigned and then
                // read (clean, in the base program too); only the read on this arm is a violation
                let l_else = self.label("sib_else");
                let l_end = self.label("sib_end");
                self.emit(Ins::Branch { c: Cond::Eq, rs1: f.acc, rs2: ZERO, label: l_else.clone() });
                let k = self.imm12();
                self.emit(Ins::li(f.never, k));
                self.emit(Ins::Alu { op: AluOp::Add, rd: f.acc, rs1: f.acc, rs2: f.never });
                self.emit(Ins::j(&l_end));
                self.emit_label(&l_else);
                let l = self.emit_flag(Ins::Alu { op: AluOp::Add, rd: f.acc, rs1: f.acc, rs2: f.never }, Flag::ViolOnly);
                self.emit_label(&l_end);
                f.st.pending |= bit(f.acc);
                l
            } else if f.frame > 0 {
                let off = f.spare.first().copied().unwrap_or(0);
                if self.rng.chance(0.4) {
                    // the first reader also overwrites the register it reads
                    let imm = self.imm12();
                    let l = self.emit_flag(Ins::addi(f.never, f.never, imm), Flag::ViolOnly);
                    self.emit_flag(Ins::sw(f.never, off, SP), Flag::ViolOnly);
                    l
                } else {
                    self.emit_flag(Ins::sw(f.never, off, SP), Flag::ViolOnly)
                }
            } else {
                self.emit_flag(
                    Ins::Alu { op: AluOp::Add, rd: f.acc, rs1: f.acc, rs2: f.never },
                    Flag::ViolOnly,
                )
            };
            self.injected = true;
            self.site_out.push(l);
            self.site_reg = Some(f.never);
        } else if self.want(Inject::DeadAssign, f) {
            let v = self.imm32();
            let l = self.emit_flag(Ins::li(f.never, v), Flag::ViolOnly);
            self.injected = true;
            self.site_out.push(l);
            self.site_reg = Some(f.never);
        } else if self.want(Inject::WriteZero, f) {
            let a = self.src(f);
            let b = self.src(f);
            let ins = if self.rng.chance(0.5) {
                Ins::Alu { op: *self.rng.pick(&ALL_ALU[..10]), rd: ZERO, rs1: a, rs2: b }
            } else {
                Ins::AluI { op: AluOp::Add, rd: ZERO, rs1: a, imm: self.imm12() }
            };
            // the reads above consumed pending values also in the base program: re-read them
            // there through a harmless sink so that the base stays clean
            self.sync(f);
            f.st.pending |= (bit(a) | bit(b)) & f.st.defined & !1;
            let l = self.emit_flag(ins, Flag::ViolOnly);
            self.injected = true;
            self.site_out.push(l);
            self.site_reg = Some(ZERO);
        } else if self.want(Inject::StackAbove, f) {
            if !f.is_main {
                let r = self.src(f);
                self.sync(f);
                f.st.pending |= bit(r) & f.st.defined & !1;
                let k = self.rng.range(0, 3) as i32;
                let l = self.emit_flag(Ins::sw(r, f.frame + 4 * k, SP), Flag::ViolOnly);
                self.injected = true;
                self.site_out.push(l);
            }
        } else if self.want(Inject::SavedUnsavedWrite, f) {
            if !f.is_main {
                let unsaved: Vec<Reg> =
                    SAVED.iter().copied().filter(|s| !f.saved.iter().any(|(r, _)| r == s)).collect();
                if !unsaved.is_empty() {
                    let s = *self.rng.pick(&unsaved);
                    let v = self.imm32();
                    let l = self.emit_flag(Ins::li(s, v), Flag::ViolOnly);
                    // read it, so that the only problem is the missing save/restore
                    if f.frame > 0 {
                        let off = f.spare.first().copied().unwrap_or(0);
                        self.emit_flag(Ins::sw(s, off, SP), Flag::ViolOnly);
                    } else {
                        self.emit_flag(
                            Ins::Alu { op: AluOp::Xor, rd: f.never, rs1: s, rs2: s },
                            Flag::ViolOnly,
                        );
                    }
                    self.injected = true;
                    self.site_out.push(l);
                    self.site_reg = Some(s);
                }
            }
        } else if self.want(Inject::JumpToFunction, f) {
            // a plain jump into a function that is also called
            let cands: Vec<usize> = (0..self.sigs.len()).filter(|k| f.is_main || *k != f.me).collect();
            if !cands.is_empty() {
                let k = *self.rng.pick(&cands);
                let name = self.sigs[k].name.clone();
                let skip = self.label("skip");
                let mut a = self.src(f);
                if a == ZERO {
                    a = f.acc;
                }
                self.sync(f);
                f.st.pending |= bit(a) & f.st.defined & !1;
                self.emit_flag(
                    Ins::Branch { c: Cond::Ge, rs1: a, rs2: ZERO, label: skip.clone() },
                    Flag::ViolOnly,
                );
                let j = self.emit_flag(Ins::j(&name), Flag::ViolOnly);
                self.out.push((Line::Label(skip), Flag::ViolOnly));
                self.injected = true;
                self.site_related.push(j);
                self.site_label = Some(name);
            }
        }
    }

    fn cond_regs(&mut self, f: &mut F) -> (Cond, Reg, Reg) {
        let c = *self.rng.pick(&ALL_COND);
        let mut a = self.src(f);
        if a == ZERO {
            // never compare x0 with x0: that would be a constant branch with dead code behind it
            if let Some(rd) = self.dst(f, &[]) {
                let v = self.imm32();
                self.emit(Ins::li(rd, v));
                f.st.defined |= bit(rd);
                a = rd;
            } else {
                a = A0;
            }
        }
        let b = if self.rng.chance(0.4) { ZERO } else { self.src(f) };
        // the zero register stands on either side of the comparison
        if b == ZERO && self.rng.chance(0.4) {
            return (c, b, a);
        }
        (c, a, b)
    }

    fn stmt_if(&mut self, f: &mut F) {
        let (c, a, b) = self.cond_regs(f);
        let l_else = self.label("else");
        let l_end = self.label("endif");
        let has_else = self.rng.chance(0.6);
        self.sync(f);
        let fork = f.st.clone();
        self.emit(Ins::Branch {
            c,
            rs1: a,
            rs2: b,
            label: if has_else { l_else.clone() } else { l_end.clone() },
        });
        f.depth += 1;
        // then arm
        let then_returns = self.arm(f, &fork, true);
        self.sync(f);
        let then_st = f.st.clone();
        let mut else_st = fork.clone();
        let mut else_returns = false;
        if has_else {
            if !then_returns {
                if self.rng.chance(self.prof.p_jal_other_rd) {
                    // a jump that links into some temporary (the link value is simply not used)
                    let link = f.never;
                    self.emit(Ins::Jal { rd: link, label: l_end.clone() });
                } else {
                    self.emit(Ins::j(&l_end));
                }
                if self.want(Inject::Unreachable, f) {
                    let mut lines = Vec::new();
                    let n = self.rng.range(1, 3);
                    for _ in 0..n {
                        let v = self.imm32();
                        lines.push(self.emit_flag(Ins::li(f.never, v), Flag::ViolOnly));
                    }
                    self.injected = true;
                    self.site_out = lines;
                }
            }
            self.emit_label(&l_else);
            f.st = fork.clone();
            else_returns = self.arm(f, &fork, !then_returns);
            self.sync(f);
            else_st = f.st.clone();
        }
        f.depth -= 1;
        if then_returns && else_returns && has_else {
            // both arms left: nothing reaches the join; continue from the fork state in a
            // fresh (reachable) continuation is impossible, so make the join reachable again
            // by never generating this shape: arm() only returns true for one arm at most.
        }
        if !(then_returns && has_else && else_returns) {
            self.emit_label(&l_end);
        }
        // join
        f.st = match (then_returns, else_returns && has_else) {
            (true, false) => else_st,
            (false, true) => then_st,
            _ => {
                let mut stored = then_st.stored.clone();
                stored.retain(|o| else_st.stored.contains(o));
                let defined = then_st.defined & else_st.defined;
                St { defined, pending: (then_st.pending | else_st.pending) & defined, stored }
            }
        };
    }

    /// Generate one conditional arm. Returns true when the arm ends in a return / exit.
    fn arm(&mut self, f: &mut F, fork: &St, allow_leave: bool) -> bool {
        self.block(f);
        // values defined inside this arm only are consumed inside it
        // ... and so are caller-saved values: the other arm may contain a call that kills them
        self.sync(f);
        let local = (f.st.pending & !fork.defined) | (f.st.pending & CALLER_SAVED);
        self.flush(f, local);
        // an arm may leave the function early (only at nesting depth 1, and only one arm)
        if !allow_leave {
            return false;
        }
        if f.depth == 1 && self.rng.chance(self.prof.p_early_return) && !f.is_main {
            self.epilogue(f, true);
            return true;
        }
        if f.depth == 1 && self.rng.chance(self.prof.p_mid_exit) {
            self.exit_sequence(f);
            return true;
        }
        false
    }

    fn stmt_loop(&mut self, f: &mut F) {
        // counter register: reserved for the duration of the loop
        let Some(cnt) = self.dst(f, &[]) else {
            return self.stmt_def(f);
        };
        // Calls inside a loop body clobber every caller-saved register on the way round the back
        // edge. Either the body makes no calls (then registers assigned before the loop may be
        // read inside it), or it may make calls and starts with no caller-saved register assigned.
        let calls_in_body = bit(cnt) & CALLER_SAVED == 0 && f.no_calls == 0 && self.rng.chance(0.5);
        let fragile = !calls_in_body;
        if fragile {
            f.no_calls += 1;
        } else {
            self.flush(f, CALLER_SAVED);
        }
        let n = self.rng.range(1, 3) as i32;
        let l_top = self.label("loop");
        let l_end = self.label("done");
        let do_while = self.rng.chance(0.5);
        self.emit(Ins::li(cnt, n));
        f.st.defined |= bit(cnt);
        f.st.pending &= !bit(cnt);
        let old_reserved = f.reserved;
        f.reserved |= bit(cnt);
        self.sync(f);
        if calls_in_body {
            self.sync(f);
            f.st.defined &= !CALLER_SAVED;
            f.st.pending &= !CALLER_SAVED;
        }
        let before = f.st.clone();
        self.emit_label(&l_top);
        if !do_while {
            self.emit(Ins::Branch { c: Cond::Ge, rs1: ZERO, rs2: cnt, label: l_end.clone() });
        }
        f.depth += 1;
        // no calls to recursive functions inside loops keeps run time bounded; plain calls ok
        self.block(f);
        self.sync(f);
        let local = (f.st.pending & !before.defined) | (f.st.pending & CALLER_SAVED & u32::from(calls_in_body).wrapping_neg());
        self.flush(f, local);
        f.depth -= 1;
        self.emit(Ins::addi(cnt, cnt, -1));
        if do_while {
            self.emit(Ins::Branch { c: Cond::Lt, rs1: ZERO, rs2: cnt, label: l_top });
        } else {
            self.emit(Ins::j(&l_top));
            self.emit_label(&l_end);
        }
        f.reserved = old_reserved;
        if fragile {
            f.no_calls -= 1;
        }
        // state after the loop
        self.sync(f);
        let body = f.st.clone();
        if do_while {
            // body ran at least once; the counter was killed across calls inside the body only
            // if a call happened -- then it is not defined any more and the loop would be
            // wrong: calls inside loops keep the counter in a saved register or are avoided
            f.st.pending = (body.pending | before.pending) & body.defined;
        } else {
            let mut stored = before.stored.clone();
            stored.retain(|o| body.stored.contains(o));
            let defined = before.defined & body.defined;
            f.st = St { defined, pending: (before.pending | body.pending) & defined, stored };
        }
        f.st.pending &= !bit(cnt);
    }

    // ----- function frame ----------------------------------------------------------------

    fn prologue(&mut self, f: &mut F) {
        if f.frame == 0 {
            return;
        }
        self.emit(Ins::addi(SP, SP, -f.frame));
        let clobber = self.inject == Some(Inject::RaClobbered) && self.inject_fn == f.me && !self.injected;
        if let Some(off) = f.ra_off {
            self.emit_flag(Ins::sw(RA, off, SP), if clobber { Flag::BaseOnly } else { Flag::Both });
        }
        let mut order = f.saved.clone();
        self.rng.shuffle(&mut order);
        for (s, off) in order {
            self.emit(Ins::sw(s, off, SP));
        }
    }

    /// Restore and return. `early` marks an early return inside a conditional arm.
    fn epilogue(&mut self, f: &mut F, _early: bool) {
        // everything that is still unread is consumed first (into the accumulator or the frame)
        self.flush(f, !0);
        self.sync(f);
        // results are derived from the accumulator
        let rets = f.rets.clone();
        let acc_ok = f.st.defined & bit(f.acc) != 0;
        for r in &rets {
            if acc_ok {
                let imm = self.rng.range(0, 3) as i32;
                self.emit(Ins::addi(*r, f.acc, imm));
            } else {
                let v = self.imm32();
                self.emit(Ins::li(*r, v));
            }
            f.st.defined |= bit(*r);
        }
        if rets.is_empty() && acc_ok && !self.rng.chance(self.prof.p_dead_def) {
            if f.frame > 0 && !f.spare.is_empty() {
                let off = *self.rng.pick(&f.spare);
                self.emit(Ins::sw(f.acc, off, SP));
            } else {
                // frameless, result-less function: park the accumulator in the data buffer
                self.emit(Ins::La { rd: f.never, label: "dat_buf".into() });
                self.emit(Ins::sw(f.acc, 4, f.never));
            }
        }
        self.sync(f);
        f.st.pending = 0;
        if f.frame > 0 {
            let no_restore = self.inject == Some(Inject::SavedNoRestore) && self.inject_fn == f.me;
            let victim = f.saved.first().map(|(r, _)| *r);
            let mut order = f.saved.clone();
            self.rng.shuffle(&mut order);
            for (s, off) in order {
                let flag = if no_restore && Some(s) == victim { Flag::BaseOnly } else { Flag::Both };
                self.emit_flag(Ins::lw(s, off, SP), flag);
            }
            if no_restore && victim.is_some() {
                self.site_reg = victim;
            }
            let clobber = self.inject == Some(Inject::RaClobbered) && self.inject_fn == f.me;
            if let Some(off) = f.ra_off {
                self.emit_flag(Ins::lw(RA, off, SP), if clobber { Flag::BaseOnly } else { Flag::Both });
            }
            let sp_bad = self.inject == Some(Inject::SpNoRestore) && self.inject_fn == f.me;
            if sp_bad {
                self.emit_flag(Ins::addi(SP, SP, f.frame), Flag::BaseOnly);
                if self.rng.chance(0.5) {
                    self.emit_flag(Ins::addi(SP, SP, f.frame - 4), Flag::ViolOnly);
                }
            } else {
                self.emit(Ins::addi(SP, SP, f.frame));
            }
        }
        let drop_ret = self.inject == Some(Inject::FallThrough) && self.inject_fn == f.me && !_early;
        self.emit_flag(Ins::ret(), if drop_ret { Flag::BaseOnly } else { Flag::Both });
    }

    fn exit_sequence(&mut self, f: &mut F) {
        // consume everything, then exit
        let code93 = self.rng.chance(0.5);
        self.flush(f, !0);
        if f.st.defined & bit(f.acc) != 0 {
            if code93 {
                self.emit(Ins::mv(A0, f.acc));
                self.emit(Ins::li(A7, 93));
            } else {
                self.emit(Ins::mv(A0, f.acc));
                self.emit(Ins::li(A7, 1));
                self.emit(Ins::Ecall);
                self.emit(Ins::li(A7, 10));
            }
        } else if code93 {
            let v = self.rng.range(0, 3) as i32;
            self.emit(Ins::li(A0, v));
            self.emit(Ins::li(A7, 93));
        } else {
            self.emit(Ins::li(A7, 10));
        }
        self.emit(Ins::Ecall);
        f.st.pending = 0;
    }

    fn function(&mut self, me: usize) -> FnInfo {
        let name = self.sigs[me].name.clone();
        let args = self.sigs[me].args.clone();
        let rets = self.sigs[me].rets.clone();
        let recursive = self.sigs[me].recursive;
        let can_call = me + 1 < self.sigs.len() || recursive;
        let targeted = self.inject_fn == me;
        let need_frame = targeted
            && matches!(
                self.inject,
                Some(Inject::SavedNoRestore | Inject::SpNoRestore | Inject::RaClobbered)
            );
        let leaf = if targeted && self.inject == Some(Inject::RaClobbered) && can_call {
            false
        } else {
            !recursive && (!can_call || self.rng.chance(0.25))
        };
        let n_saved = if recursive {
            self.rng.range(2, 4) as usize
        } else if targeted && self.inject == Some(Inject::SavedNoRestore) {
            self.rng.range(1, 4) as usize
        } else if leaf && !need_frame && self.rng.chance(0.4) {
            0
        } else {
            self.rng.range(0, 4) as usize
        };
        let mut s_pool = SAVED.to_vec();
        self.rng.shuffle(&mut s_pool);
        let saved_regs: Vec<Reg> = s_pool[..n_saved].to_vec();
        let n_spare = if leaf && n_saved == 0 && !need_frame && self.rng.chance(0.5) {
            0
        } else {
            self.rng.range(1, 3) as usize
        };
        let words = n_saved + n_spare + usize::from(!leaf);
        let frame = if words == 0 {
            0
        } else {
            (4 * words as i32 + self.rng.range(0, 2) as i32 * 4 + 15) / 16 * 16
        };
        // distinct word offsets below the entry sp
        let mut offs: Vec<i32> = (0..frame / 4).map(|k| 4 * k).collect();
        self.rng.shuffle(&mut offs);
        let mut it = offs.into_iter();
        let ra_off = if leaf { None } else { it.next() };
        let saved: Vec<(Reg, i32)> = saved_regs.iter().map(|r| (*r, it.next().expect("slot"))).collect();
        let spare: Vec<i32> = (0..n_spare).filter_map(|_| it.next()).collect();

        // registers this function may use
        let mut temps = TEMPS.to_vec();
        self.rng.shuffle(&mut temps);
        let never = temps.pop().expect("temp");
        let mut pool = mask(&temps) | mask(&saved_regs);
        for a in ARGS {
            if !args.contains(&a) && a != A7 && self.rng.chance(0.5) {
                pool |= bit(a);
            }
        }
        // accumulator: a saved register when there is one, else a temporary
        let acc = if let Some(s) = saved_regs.first() { *s } else { temps[0] };
        let fragile_acc = bit(acc) & CALLER_SAVED != 0 && spare.is_empty();
        let mut f = F {
            st: St { defined: mask(&args) | bit(SP) | bit(RA) | 1, pending: mask(&args), stored: vec![] },
            is_main: false,
            me,
            frame,
            ra_off,
            saved,
            spare,
            acc,
            reserved: 0,
            never,
            depth: 0,
            rets: rets.clone(),
            pool,
            made_call: false,
            rec_src: None,
            calls_emitted: 0,
            no_calls: u32::from(leaf),
            no_ecalls: u32::from(fragile_acc),
        };
        let aliases = self.sigs[me].aliases.clone();
        for (k, a) in aliases.iter().enumerate() {
            if k % 2 == 0 {
                self.emit_label(a);
            }
        }
        self.emit_label(&name);
        for (k, a) in aliases.iter().enumerate() {
            if k % 2 == 1 {
                self.emit_label(a);
            }
        }
        let first_line = self.out.len();
        self.prologue(&mut f);
        {
            // the accumulator is assigned on every path from the start
            let v = self.imm32();
            self.emit(Ins::li(f.acc, v));
            f.st.defined |= bit(f.acc);
            self.sync(&mut f);
            f.st.pending |= bit(f.acc);
        }
        if f.frame > 0 && self.rng.chance(self.prof.p_frame_pointer) {
            // frame pointer convention: a saved register (saved in the prologue) is given the value sp had at
            // entry - a copy of *another* register's entry value - and addresses of locals are computed from it
            if let Some((fp, _)) = f.saved.iter().copied().find(|(s, _)| *s != f.acc) {
                self.emit(Ins::addi(fp, SP, f.frame));
                f.st.defined |= bit(fp);
                if self.rng.chance(0.5) {
                    let k = 4 * (1 + self.rng.below((f.frame / 4) as usize) as i32);
                    self.emit(Ins::addi(fp, fp, -k));
                }
                self.emit(Ins::Alu { op: AluOp::Add, rd: f.acc, rs1: f.acc, rs2: fp });
                f.st.pending |= bit(f.acc);
            }
        }
        if recursive {
            // depth guard: first argument <= 0 returns at once
            let a = args[0];
            let l_go = self.label("rec");
            f.st.pending &= !bit(a);
            self.emit(Ins::Branch { c: Cond::Lt, rs1: ZERO, rs2: a, label: l_go.clone() });
            self.sync(&mut f);
            let keep = f.st.clone();
            self.flush(&mut f, !0);
            self.epilogue(&mut f, true);
            f.st = keep;
            self.emit_label(&l_go);
            // keep the depth in a register that survives calls
            if let Some((s, _)) = f.saved.iter().copied().find(|(s, _)| *s != f.acc) {
                self.emit(Ins::mv(s, a));
                f.st.defined |= bit(s);
                f.reserved |= bit(s);
                f.rec_src = Some(s);
            }
        }
        // an error exit behind the epilogue, entered by a branch from the top of the body
        let mut tail_exit: Option<(String, St)> = None;
        // (not in the function whose last return is dropped to plant a fall-through: it has to
        // fall into the next function, not into its own exit block)
        let falls_through = self.inject == Some(Inject::FallThrough) && self.inject_fn == me;
        if self.rng.chance(self.prof.p_tail_exit) && !falls_through {
            let l_fail = self.label("fail");
            let (c, a, b) = self.cond_regs(&mut f);
            self.sync(&mut f);
            self.emit(Ins::Branch { c, rs1: a, rs2: b, label: l_fail.clone() });
            self.sync(&mut f);
            tail_exit = Some((l_fail, f.st.clone()));
        }
        self.block(&mut f);
        if !leaf {
            if let Some(src) = f.rec_src {
                self.call(&mut f, me, Some(src));
            }
            if !f.made_call && me + 1 < self.sigs.len() {
                let callee = me + 1 + self.rng.below(self.sigs.len() - me - 1);
                self.call(&mut f, callee, None);
            }
            if self.rng.chance(0.5) {
                self.block(&mut f);
            }
        }
        self.epilogue(&mut f, false);
        if let Some((l_fail, st)) = tail_exit {
            let after = f.st.clone();
            f.st = st;
            self.emit_label(&l_fail);
            self.exit_sequence(&mut f);
            // (drain the read log: these reads belong to this function)
            self.sync(&mut f);
            f.st = after;
        }
        // record planted sites that are properties of the whole function
        let writes_of = |g: &G, r: Reg, calls: bool| -> Vec<usize> {
            (first_line..g.out.len())
                .filter(|k| match &g.out[*k] {
                    (Line::Ins(i), fl) if *fl != Flag::BaseOnly => {
                        if calls {
                            i.is_call()
                        } else {
                            i.writes() == Some(r)
                        }
                    }
                    _ => false,
                })
                .collect()
        };
        if targeted {
            match self.inject {
                Some(Inject::SavedNoRestore) if !f.saved.is_empty() => {
                    let victim = f.saved[0].0;
                    let w = writes_of(self, victim, false);
                    if !w.is_empty() {
                        self.injected = true;
                        self.site_reg = Some(victim);
                        self.site_out = w;
                    }
                }
                Some(Inject::SpNoRestore) if f.frame > 0 => {
                    self.injected = true;
                    self.site_reg = Some(SP);
                    self.site_out = writes_of(self, SP, false);
                }
                Some(Inject::RaClobbered) if f.ra_off.is_some() && f.made_call => {
                    self.injected = true;
                    self.site_reg = Some(RA);
                    self.site_out = writes_of(self, RA, true);
                }
                Some(Inject::FallThrough) => {
                    self.injected = true;
                }
                _ => {}
            }
        }
        FnInfo { name, args, rets, saved: saved_regs, frame, leaf, recursive }
    }

    fn main(&mut self) {
        let mut temps = TEMPS.to_vec();
        self.rng.shuffle(&mut temps);
        let never = temps.pop().expect("temp");
        let mut s_pool = SAVED.to_vec();
        self.rng.shuffle(&mut s_pool);
        let acc = s_pool[0];
        let pool = mask(&temps) | mask(&s_pool[1..5]) | mask(&[12, 13, 14, 15, 16]);
        let mut f = F {
            st: St { defined: bit(A0) | bit(A1) | 1, pending: 0, stored: vec![] },
            is_main: true,
            me: usize::MAX,
            frame: 0,
            ra_off: None,
            saved: vec![],
            spare: vec![],
            acc,
            reserved: 0,
            never,
            depth: 0,
            rets: vec![],
            pool,
            made_call: false,
            rec_src: None,
            calls_emitted: 0,
            no_calls: 0,
            no_ecalls: 0,
        };
        self.emit_label("main");
        if self.rng.chance(self.prof.p_main_frame) {
            // a frame of its own below the initial stack pointer (never given back: the program exits)
            let words = 1 + self.rng.below(6) as i32;
            f.frame = 4 * words;
            f.spare = (0..words).map(|k| 4 * k).collect();
            f.st.defined |= bit(SP);
            self.emit(Ins::addi(SP, SP, -f.frame));
        }
        let v = self.imm32();
        self.emit(Ins::li(acc, v));
        f.st.defined |= bit(acc);
        self.sync(&mut f);
        f.st.pending |= bit(acc);
        if f.frame > 0 {
            // (the frame is used at least once: a stack pointer that is moved and never used is an unused value)
            let off = *self.rng.pick(&f.spare);
            self.emit(Ins::sw(acc, off, SP));
        }
        self.block(&mut f);
        // every function is called at least once from the top level, in random order
        let mut order: Vec<usize> = (0..self.sigs.len()).collect();
        self.rng.shuffle(&mut order);
        for k in order {
            self.call(&mut f, k, None);
            if self.rng.chance(0.4) {
                self.block(&mut f);
            }
        }
        self.exit_sequence(&mut f);
    }
}

/// Generate one program.
pub fn generate(rng: &mut Rng, prof: &Profile, inject: Option<Inject>) -> Generated {
    let n_funcs = 1 + rng.below(prof.max_funcs.max(1));
    let mut sigs = Vec::new();
    for k in 0..n_funcs {
        let recursive = rng.chance(prof.p_recursive);
        let mut args: Vec<Reg> = Vec::new();
        let n_args = if recursive { rng.range(1, 3) } else { rng.range(0, 4) } as usize;
        let mut pool: Vec<Reg> = (10..=16).collect();
        if !recursive {
            rng.shuffle(&mut pool);
        }
        for a in pool.iter().take(n_args) {
            args.push(*a);
        }
        if !recursive {
            args.sort_unstable();
        }
        let rets: Vec<Reg> = match rng.below(4) {
            0 => vec![],
            1 | 2 => vec![A0],
            _ => vec![A0, A1],
        };
        let aliases = if rng.chance(prof.p_alias_label) {
            (0..1 + rng.below(2)).map(|a| format!("fn_{k}_alias{a}")).collect()
        } else {
            vec![]
        };
        sigs.push(Sig { name: format!("fn_{k}"), aliases, args, rets, recursive });
    }
    let inject_fn = match inject {
        Some(
            Inject::SavedNoRestore
            | Inject::SavedUnsavedWrite
            | Inject::SpNoRestore
            | Inject::RaClobbered
            | Inject::StackAbove,
        ) => rng.below(n_funcs),
        Some(Inject::FallThrough) => {
            if n_funcs >= 2 {
                rng.below(n_funcs - 1)
            } else {
                usize::MAX - 1
            }
        }
        Some(
            Inject::TempAfterCall
            | Inject::ReadUnassigned
            | Inject::DeadAssign
            | Inject::WriteZero
            | Inject::UnknownEcall
            | Inject::Unreachable
            | Inject::JumpToFunction,
        ) => {
            if rng.chance(0.4) {
                usize::MAX
            } else {
                rng.below(n_funcs)
            }
        }
        _ => usize::MAX - 1,
    };
    let inject_skip = rng.below(3);
    let data_first = rng.chance(0.5);
    let data_words = 4 + rng.below(4);
    let mut g = G {
        rng,
        prof,
        out: Vec::new(),
        next_label: 0,
        sigs,
        inject,
        site_out: vec![],
        site_related: vec![],
        site_reg: None,
        site_label: None,
        injected: false,
        inject_fn,
        inject_skip,
        data_words,
        read_log: 0,
    };
    // ----- emit the functions, then the top-level code (which calls every function)
    let mut funcs = Vec::new();
    let mut fn_ranges = Vec::new();
    for k in 0..n_funcs {
        let s = g.out.len();
        let info = g.function(k);
        fn_ranges.push((s, g.out.len()));
        funcs.push(info);
    }
    let main_range = (g.out.len(), {
        g.main();
        g.out.len()
    });
    if inject == Some(Inject::FallThrough) {
        if n_funcs >= 2 && g.injected {
            let (ns, _) = fn_ranges[inject_fn + 1];
            g.site_label = Some(funcs[inject_fn + 1].name.clone());
            g.site_out = vec![ns];
        } else {
            g.injected = false;
        }
    }
    if inject == Some(Inject::JumpToFunction) && g.injected {
        // expected on the first instruction of the function jumped to
        let mut found = false;
        if let Some(name) = g.site_label.clone() {
            if let Some(k) = funcs.iter().position(|f| f.name == name) {
                let (s, e) = fn_ranges[k];
                if let Some(first) =
                    (s..e).find(|i| matches!(g.out[*i].0, Line::Ins(_)) && g.out[*i].1 != Flag::BaseOnly)
                {
                    g.site_out = vec![first];
                    found = true;
                }
            }
        }
        g.injected = found;
    }

    // ----- assemble: [data] [.text] main, functions, [data]; remember where each emitted
    // line ends up
    let data_lines = |g: &mut G| {
        let mut v = vec![Line::SecData];
        v.push(Line::Label("dat_w".into()));
        let words: Vec<i32> = (0..g.data_words).map(|_| g.rng.range(-50, 50) as i32).collect();
        v.push(Line::Data(Data::Word(words)));
        v.push(Line::Label("dat_buf".into()));
        v.push(Line::Data(Data::Space(64)));
        v.push(Line::Label("dat_s".into()));
        let strings = ["hello", "a\tb\n", "tab\there", "q\"uote\" \\ back", "two\nlines\n", "caf\u{e9} \u{2713}", ""];
        v.push(Line::Data(Data::Asciz(strings[g.rng.below(strings.len())].into())));
        v
    };
    // final sequence of (line, flag, Option<emitted index>)
    let mut seq: Vec<(Line, Flag, Option<usize>)> = Vec::new();
    if data_first {
        for l in data_lines(&mut g) {
            seq.push((l, Flag::Both, None));
        }
        seq.push((Line::SecText, Flag::Both, None));
    } else if g.rng.chance(0.5) {
        seq.push((Line::SecText, Flag::Both, None));
    }
    let first_fn = if inject == Some(Inject::FirstIsFunction) { Some(g.rng.below(n_funcs)) } else { None };
    if let Some(k) = first_fn {
        // violating order: one function in front of the top-level code
        let (s, e) = fn_ranges[k];
        for i in s..e {
            seq.push((g.out[i].0.clone(), Flag::ViolOnly, Some(i)));
        }
        if let Some(fi) = (s..e).find(|i| matches!(g.out[*i].0, Line::Ins(_))) {
            g.site_out = vec![fi];
            g.injected = true;
        }
    }
    let functions_first = first_fn.is_none() && inject != Some(Inject::FallThrough) && g.rng.chance(prof.p_functions_first);
    if functions_first {
        seq.push((Line::Ins(Ins::j("main")), Flag::Both, None));
    } else {
        for i in main_range.0..main_range.1 {
            seq.push((g.out[i].0.clone(), g.out[i].1, Some(i)));
        }
    }
    let mut order: Vec<usize> = (0..n_funcs).collect();
    // keep fall-through pairs adjacent; otherwise any order
    if inject != Some(Inject::FallThrough) {
        g.rng.shuffle(&mut order);
    }
    for k in order {
        let (s, e) = fn_ranges[k];
        if g.rng.chance(prof.p_data_island) {
            // data in front of the function: its label names the data, not the function
            seq.push((Line::SecData, Flag::Both, None));
            seq.push((Line::Label(format!("island_{k}")), Flag::Both, None));
            let d = match g.rng.below(3) {
                0 => Data::Word(vec![g.rng.range(-9, 9) as i32]),
                1 => Data::Space(4 * (1 + g.rng.below(3)) as u32),
                _ => Data::Asciz("island".into()),
            };
            seq.push((Line::Data(d), Flag::Both, None));
            if g.rng.chance(0.3) {
                // (a label that is still open when the segment ends)
                seq.push((Line::Label(format!("island_{k}_end")), Flag::Both, None));
            }
            seq.push((Line::SecText, Flag::Both, None));
        }
        for i in s..e {
            if first_fn == Some(k) {
                // the base program keeps the function here; the violating one has it in front
                seq.push((g.out[i].0.clone(), Flag::BaseOnly, None));
            } else {
                seq.push((g.out[i].0.clone(), g.out[i].1, Some(i)));
            }
        }
    }
    if functions_first {
        for i in main_range.0..main_range.1 {
            seq.push((g.out[i].0.clone(), g.out[i].1, Some(i)));
        }
    }
    if !data_first {
        for l in data_lines(&mut g) {
            seq.push((l, Flag::Both, None));
        }
    }
    let mut extra_site: Option<usize> = None;
    if inject == Some(Inject::InData) {
        if data_first {
            seq.push((Line::SecData, Flag::ViolOnly, None));
        }
        let v = g.rng.range(1, 9) as i32;
        seq.push((Line::Ins(Ins::li(5, v)), Flag::ViolOnly, None));
        extra_site = Some(seq.len() - 1);
        g.injected = true;
    }

    // ----- split into violating and base programs, translating site indexes
    let mut viol = Program::default();
    let mut base = Program::default();
    let mut emitted_to_viol: std::collections::HashMap<usize, usize> = std::collections::HashMap::new();
    let mut extra_viol = None;
    for (k, (l, fl, em)) in seq.iter().enumerate() {
        if *fl != Flag::BaseOnly {
            if let Some(e) = em {
                emitted_to_viol.insert(*e, viol.lines.len());
            }
            if extra_site == Some(k) {
                extra_viol = Some(viol.lines.len());
            }
            viol.lines.push(l.clone());
        }
        if *fl != Flag::ViolOnly {
            base.lines.push(l.clone());
        }
    }
    let mut lines: Vec<usize> = g.site_out.iter().filter_map(|i| emitted_to_viol.get(i).copied()).collect();
    if let Some(e) = extra_viol {
        lines.push(e);
    }
    let needs_lines = !matches!(inject, None);
    let site = if g.injected && (!needs_lines || !lines.is_empty()) {
        inject.map(|kind| Site {
            kind,
            lines,
            reg: g.site_reg,
            label: g.site_label.clone(),
            related_lines: g.site_related.iter().filter_map(|i| emitted_to_viol.get(i).copied()).collect(),
        })
    } else {
        None
    };
    if site.is_none() {
        return Generated { prog: base.clone(), base, site: None, funcs };
    }
    Generated { prog: viol, base, site, funcs }
}
