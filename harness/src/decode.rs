//! Reading the analyzer's decoded nodes back into the harness AST ("what did the tool
//! understand this line to mean"), using only public fields of `ParserNode`.

use crate::ast::*;
use riscv_analysis::parser::{
    ArithType, BasicType, BranchType, CsrIType, CsrType, IArithType, LoadType, ParserNode, StoreType,
};

pub fn reg(r: &riscv_analysis::parser::Register) -> Reg {
    r.to_num()
}

pub fn arith_op(t: &ArithType) -> Option<AluOp> {
    Some(match t {
        ArithType::Add => AluOp::Add,
        ArithType::Sub => AluOp::Sub,
        ArithType::And => AluOp::And,
        ArithType::Or => AluOp::Or,
        ArithType::Xor => AluOp::Xor,
        ArithType::Sll => AluOp::Sll,
        ArithType::Srl => AluOp::Srl,
        ArithType::Sra => AluOp::Sra,
        ArithType::Slt => AluOp::Slt,
        ArithType::Sltu => AluOp::Sltu,
        ArithType::Mul => AluOp::Mul,
        ArithType::Mulh => AluOp::Mulh,
        ArithType::Mulhsu => AluOp::Mulhsu,
        ArithType::Mulhu => AluOp::Mulhu,
        ArithType::Div => AluOp::Div,
        ArithType::Divu => AluOp::Divu,
        ArithType::Rem => AluOp::Rem,
        ArithType::Remu => AluOp::Remu,
        // RV64-only
        ArithType::Addw
        | ArithType::Sllw
        | ArithType::Sraw
        | ArithType::Srlw
        | ArithType::Divw
        | ArithType::Remw
        | ArithType::Remuw => return None,
    })
}

pub fn iarith_op(t: &IArithType) -> Option<AluOp> {
    Some(match t {
        IArithType::Addi => AluOp::Add,
        IArithType::Andi => AluOp::And,
        IArithType::Ori => AluOp::Or,
        IArithType::Xori => AluOp::Xor,
        IArithType::Slli => AluOp::Sll,
        IArithType::Srli => AluOp::Srl,
        IArithType::Srai => AluOp::Sra,
        IArithType::Slti => AluOp::Slt,
        IArithType::Sltiu => AluOp::Sltu,
        _ => return None,
    })
}

/// The meaning of a decoded node in base-ISA terms; None when the node has no RV32IM
/// meaning the harness models (RV64-only, ebreak/uret, auipc, labels, directives).
pub fn node_to_ins(n: &ParserNode) -> Option<Ins> {
    Some(match n {
        ParserNode::Arith(a) => Ins::Alu {
            op: arith_op(a.inst.get())?,
            rd: reg(a.rd.get()),
            rs1: reg(a.rs1.get()),
            rs2: reg(a.rs2.get()),
        },
        ParserNode::IArith(a) => match a.inst.get() {
            IArithType::Lui => {
                // the tool stores the already shifted value
                let v = a.imm.get().value();
                Ins::AluI { op: AluOp::Add, rd: reg(a.rd.get()), rs1: reg(a.rs1.get()), imm: v }
            }
            t => Ins::AluI {
                op: iarith_op(t)?,
                rd: reg(a.rd.get()),
                rs1: reg(a.rs1.get()),
                imm: a.imm.get().value(),
            },
        },
        ParserNode::LoadAddr(l) => Ins::La { rd: reg(l.rd.get()), label: l.name.get().as_str().to_string() },
        ParserNode::Load(l) => Ins::Load {
            w: match l.inst.get() {
                LoadType::Lb => LoadW::B,
                LoadType::Lbu => LoadW::Bu,
                LoadType::Lh => LoadW::H,
                LoadType::Lhu => LoadW::Hu,
                LoadType::Lw => LoadW::W,
                LoadType::Lwu => return None,
            },
            rd: reg(l.rd.get()),
            off: l.imm.get().value(),
            base: reg(l.rs1.get()),
        },
        ParserNode::Store(s) => Ins::Store {
            w: match s.inst.get() {
                StoreType::Sb => StoreW::B,
                StoreType::Sh => StoreW::H,
                StoreType::Sw => StoreW::W,
            },
            rs2: reg(s.rs2.get()),
            off: s.imm.get().value(),
            base: reg(s.rs1.get()),
        },
        ParserNode::Branch(b) => Ins::Branch {
            c: match b.inst.get() {
                BranchType::Beq => Cond::Eq,
                BranchType::Bne => Cond::Ne,
                BranchType::Blt => Cond::Lt,
                BranchType::Bge => Cond::Ge,
                BranchType::Bltu => Cond::Ltu,
                BranchType::Bgeu => Cond::Geu,
            },
            rs1: reg(b.rs1.get()),
            rs2: reg(b.rs2.get()),
            label: b.name.get().as_str().to_string(),
        },
        ParserNode::JumpLink(j) => Ins::Jal { rd: reg(j.rd.get()), label: j.name.get().as_str().to_string() },
        ParserNode::JumpLinkR(j) => {
            Ins::Jalr { rd: reg(j.rd.get()), rs1: reg(j.rs1.get()), imm: j.imm.get().value() }
        }
        ParserNode::Basic(b) => match b.inst.get() {
            BasicType::Ecall => Ins::Ecall,
            _ => return None,
        },
        ParserNode::Csr(c) => {
            let (rd, csr, rs1) = (reg(c.rd.get()), c.csr.get().value(), reg(c.rs1.get()));
            match c.inst.get() {
                CsrType::Csrrw => Ins::Csrrw { rd, csr, rs1 },
                CsrType::Csrrs => Ins::Csrrs { rd, csr, rs1 },
                CsrType::Csrrc => return None,
            }
        }
        ParserNode::CsrI(c) => match c.inst.get() {
            CsrIType::Csrrwi => {
                Ins::Csrrwi { rd: reg(c.rd.get()), csr: c.csr.get().value(), imm: c.imm.get().value() }
            }
            _ => return None,
        },
        ParserNode::Label(_)
        | ParserNode::Directive(_)
        | ParserNode::ProgramEntry(_)
        | ParserNode::FuncEntry(_) => return None,
    })
}
