//! Hand-written, parametrised program shapes for the call-graph / label arrangements that the
//! structured generator does not produce (C11, C16, C03, C10).

use crate::ast::*;
use crate::rng::Rng;

pub struct Shape {
    pub name: &'static str,
    pub prog: Program,
}

fn exit(p: &mut Program) {
    p.push(Ins::li(A7, 10));
    p.push(Ins::Ecall);
}

fn t(rng: &mut Rng) -> Reg {
    *rng.pick(&TEMPS)
}

/// Shapes whose analysis must succeed (every called label reaches a return).
pub fn call_graph_shapes(rng: &mut Rng) -> Vec<Shape> {
    let mut v = Vec::new();
    let k = rng.range(1, 50) as i32;

    // several labels on one entry, called through each of them
    {
        let mut p = Program::default();
        p.label("main");
        p.push(Ins::li(A0, k));
        p.push(Ins::call("f_a"));
        p.push(Ins::call("f_b"));
        if rng.chance(0.5) {
            p.push(Ins::call("f_c"));
        }
        exit(&mut p);
        p.label("f_a");
        p.label("f_b");
        p.label("f_c");
        p.push(Ins::addi(A0, A0, 1));
        p.push(Ins::ret());
        v.push(Shape { name: "several-labels-one-entry", prog: p });
    }
    // a function whose instructions stand in the data segment (a forgotten `.text`): it is a call
    // target all the same
    {
        let mut p = Program::default();
        p.label("main");
        p.push(Ins::li(A0, k));
        p.push(Ins::call("in_data"));
        if rng.chance(0.5) {
            p.push(Ins::call("in_text"));
        }
        exit(&mut p);
        p.lines.push(Line::SecData);
        p.label("table");
        p.lines.push(Line::Data(Data::Word(vec![1, 2, 3])));
        p.label("in_data");
        p.push(Ins::addi(A0, A0, 1));
        p.push(Ins::ret());
        if rng.chance(0.6) {
            p.lines.push(Line::SecText);
        }
        p.label("in_text");
        p.push(Ins::addi(A0, A0, 2));
        p.push(Ins::ret());
        v.push(Shape { name: "function-in-the-data-segment", prog: p });
    }
    // a leaf routine that keeps its return address in a temporary and leaves through it
    {
        let mut p = Program::default();
        let r = t(rng);
        p.label("main");
        p.push(Ins::li(A0, k));
        p.push(Ins::call("leaf"));
        exit(&mut p);
        p.label("leaf");
        p.push(Ins::mv(r, RA));
        p.push(Ins::addi(A0, A0, 1));
        p.push(Ins::Jalr { rd: ZERO, rs1: r, imm: 0 });
        v.push(Shape { name: "return-through-a-temporary", prog: p });
    }
    // interleaved bodies: f continues behind g
    {
        let mut p = Program::default();
        let r = t(rng);
        p.label("main");
        p.push(Ins::li(A0, k));
        p.push(Ins::call("f"));
        p.push(Ins::call("g"));
        exit(&mut p);
        p.label("f");
        p.push(Ins::addi(r, A0, 1));
        p.push(Ins::j("f_rest"));
        p.label("g");
        p.push(Ins::li(A0, 7));
        p.push(Ins::ret());
        p.label("f_rest");
        p.push(Ins::addi(A0, r, 2));
        p.push(Ins::ret());
        v.push(Shape { name: "interleaved-bodies", prog: p });
    }
    // shared tail: f jumps into the middle of g
    {
        let mut p = Program::default();
        p.label("main");
        p.push(Ins::li(A0, k));
        p.push(Ins::call("f"));
        p.push(Ins::call("g"));
        exit(&mut p);
        p.label("f");
        p.push(Ins::addi(A0, A0, 1));
        p.push(Ins::j("tail"));
        p.label("g");
        p.push(Ins::addi(A0, A0, 2));
        p.label("tail");
        p.push(Ins::addi(A0, A0, 3));
        p.push(Ins::ret());
        v.push(Shape { name: "shared-tail", prog: p });
    }
    // function entered by fall-through from another function
    {
        let mut p = Program::default();
        p.label("main");
        p.push(Ins::li(A0, k));
        p.push(Ins::call("f"));
        p.push(Ins::call("g"));
        exit(&mut p);
        p.label("f");
        p.push(Ins::addi(A0, A0, 1));
        p.label("g");
        p.push(Ins::addi(A0, A0, 2));
        p.push(Ins::ret());
        v.push(Shape { name: "fall-through-entry", prog: p });
    }
    // recursion (direct and mutual)
    {
        let mut p = Program::default();
        p.label("main");
        p.push(Ins::li(A0, rng.range(0, 3) as i32));
        p.push(Ins::call("even"));
        exit(&mut p);
        for (me, other) in [("even", "odd"), ("odd", "even")] {
            p.label(me);
            p.push(Ins::addi(SP, SP, -16));
            p.push(Ins::sw(RA, 12, SP));
            p.push(Ins::Branch { c: Cond::Ge, rs1: ZERO, rs2: A0, label: format!("{me}_base") });
            p.push(Ins::addi(A0, A0, -1));
            p.push(Ins::call(other));
            p.label(&format!("{me}_base"));
            p.push(Ins::lw(RA, 12, SP));
            p.push(Ins::addi(SP, SP, 16));
            p.push(Ins::ret());
        }
        v.push(Shape { name: "mutual-recursion", prog: p });
    }
    // a function that is called only from unreachable code
    {
        let mut p = Program::default();
        p.label("main");
        p.push(Ins::li(A0, k));
        exit(&mut p);
        p.push(Ins::call("h"));
        p.push(Ins::j("main"));
        p.label("h");
        p.push(Ins::addi(A0, A0, 1));
        p.push(Ins::ret());
        v.push(Shape { name: "called-only-from-dead-code", prog: p });
    }
    // multiple returns, some behind loops
    {
        let mut p = Program::default();
        let r = t(rng);
        p.label("main");
        p.push(Ins::li(A0, k));
        p.push(Ins::call("m"));
        exit(&mut p);
        p.label("m");
        p.push(Ins::Branch { c: Cond::Eq, rs1: A0, rs2: ZERO, label: "m_zero".into() });
        p.push(Ins::li(r, 2));
        p.label("m_loop");
        p.push(Ins::addi(r, r, -1));
        p.push(Ins::Branch { c: Cond::Lt, rs1: ZERO, rs2: r, label: "m_loop".into() });
        p.push(Ins::addi(A0, A0, 1));
        p.push(Ins::ret());
        p.label("m_zero");
        p.push(Ins::li(A0, 5));
        p.push(Ins::ret());
        if rng.chance(0.5) {
            p.label("m_never");
            p.push(Ins::ret());
        }
        v.push(Shape { name: "multiple-returns", prog: p });
    }
    // interrupt handler installed through utvec
    {
        let mut p = Program::default();
        let r = t(rng);
        p.label("main");
        p.push(Ins::La { rd: r, label: "handler".into() });
        p.push(Ins::Csrrw { rd: ZERO, csr: 5, rs1: r });
        p.push(Ins::li(A0, k));
        exit(&mut p);
        p.label("handler");
        p.push(Ins::Csrrw { rd: r, csr: 0x40, rs1: r });
        p.push(Ins::addi(r, r, 0));
        p.push(Ins::Csrrw { rd: r, csr: 0x40, rs1: r });
        p.lines.push(Line::Raw("    uret".into()));
        v.push(Shape { name: "interrupt-handler", prog: p });
    }
    // a call target that is also a branch target inside its own function (loop to entry)
    {
        let mut p = Program::default();
        p.label("main");
        p.push(Ins::li(A0, rng.range(1, 3) as i32));
        p.push(Ins::call("cnt"));
        exit(&mut p);
        p.label("cnt");
        p.push(Ins::addi(A0, A0, -1));
        p.push(Ins::Branch { c: Cond::Lt, rs1: ZERO, rs2: A0, label: "cnt".into() });
        p.push(Ins::ret());
        v.push(Shape { name: "branch-back-to-entry", prog: p });
    }
    v
}

/// Several functions that share several separate tails (same or different owner sets).
pub fn shared_tail_family(rng: &mut Rng) -> Shape {
    let n_fn = 2 + rng.below(2);
    let n_tail = 1 + rng.below(3);
    let mut p = Program::default();
    p.label("main");
    for k in 0..n_fn {
        p.push(Ins::li(A0, k as i32));
        p.push(Ins::call(&format!("sf_{k}")));
    }
    exit(&mut p);
    // interleave function heads and tails in program order
    let mut pieces: Vec<(bool, usize)> = (0..n_fn).map(|k| (true, k)).chain((0..n_tail).map(|k| (false, k))).collect();
    // the first piece must be a function head (a tail in front would be reachable only by jumps, fine too)
    rng.shuffle(&mut pieces);
    for (is_fn, k) in pieces {
        if is_fn {
            p.label(&format!("sf_{k}"));
            p.push(Ins::addi(A0, A0, 1 + k as i32));
            // reach a random non-empty subset of the tails
            let mut targets: Vec<usize> = (0..n_tail).filter(|_| rng.chance(0.7)).collect();
            if targets.is_empty() {
                targets.push(rng.below(n_tail));
            }
            let last = targets.pop().unwrap();
            for t in targets {
                p.push(Ins::Branch { c: Cond::Eq, rs1: A0, rs2: ZERO, label: format!("st_{t}") });
            }
            p.push(Ins::j(&format!("st_{last}")));
        } else {
            p.label(&format!("st_{k}"));
            p.push(Ins::addi(A0, A0, 10 + k as i32));
            if rng.chance(0.3) {
                p.push(Ins::addi(A0, A0, 1));
            }
            p.push(Ins::ret());
        }
    }
    Shape { name: "shared-tail-family", prog: p }
}

/// Trap handlers that save registers through a pointer kept in uscratch (CSR-heavy facts).
pub fn trap_handler_family(rng: &mut Rng) -> Shape {
    let ptr = *rng.pick(&[5u8, 6, 7, 28]);
    let mut saved: Vec<Reg> = vec![9, 18, 19, 8];
    rng.shuffle(&mut saved);
    saved.truncate(1 + rng.below(3));
    // real handlers also save the temporaries they use (the interrupted code goes on using them)
    let mut temps: Vec<Reg> = TEMPS.iter().copied().filter(|t| *t != ptr).collect();
    rng.shuffle(&mut temps);
    temps.truncate(rng.below(3));
    saved.extend(temps.iter().copied());
    let csr_ptr = *rng.pick(&[0x40u32, 0x40, 0x43]);
    let exits_inside = rng.chance(0.6);
    let exception_first = rng.chance(0.5);
    let mut p = Program::default();
    p.label("main");
    p.push(Ins::La { rd: ptr, label: "handler".into() });
    // the old vector is thrown away, kept in another register, or swapped into the same one
    let old_vector = *rng.pick(&[ZERO, ZERO, ptr, 29]);
    p.push(Ins::Csrrw { rd: old_vector, csr: 5, rs1: ptr });
    if rng.chance(0.5) {
        p.push(Ins::La { rd: ptr, label: "save_area".into() });
        p.push(Ins::Csrrw { rd: ZERO, csr: csr_ptr, rs1: ptr });
    }
    exit(&mut p);
    p.label("handler");
    p.push(Ins::Csrrw { rd: ptr, csr: csr_ptr, rs1: ptr });
    for (k, s) in saved.iter().enumerate() {
        p.push(Ins::sw(*s, 4 * k as i32, ptr));
    }
    let work = saved[0];
    p.push(Ins::Csrrs { rd: work, csr: 0x42, rs1: ZERO });
    let exception = |p: &mut Program, rng: &mut Rng| {
        p.label("exception");
        if rng.chance(0.7) {
            p.push(Ins::sw(work, 0, ptr));
        }
        if rng.chance(0.3) {
            p.push(Ins::Csrrwi { rd: ZERO, csr: 0x41, imm: rng.range(0, 31) as i32 });
        }
        if exits_inside {
            p.push(Ins::li(A7, 10));
            p.push(Ins::Ecall);
        } else {
            p.push(Ins::j("restore"));
        }
    };
    let restore = |p: &mut Program| {
        p.label("restore");
        for (k, s) in saved.iter().enumerate() {
            p.push(Ins::lw(*s, 4 * k as i32, ptr));
        }
        p.push(Ins::Csrrw { rd: ptr, csr: csr_ptr, rs1: ptr });
        p.lines.push(Line::Raw("    uret".into()));
    };
    if exception_first {
        p.push(Ins::Branch { c: Cond::Lt, rs1: work, rs2: ZERO, label: "restore".into() });
        exception(&mut p, rng);
        restore(&mut p);
    } else {
        p.push(Ins::Branch { c: Cond::Ge, rs1: work, rs2: ZERO, label: "exception".into() });
        p.push(Ins::j("restore"));
        restore(&mut p);
        exception(&mut p, rng);
    }
    p.lines.push(Line::SecData);
    p.label("save_area");
    p.lines.push(Line::Data(Data::Space(32)));
    Shape { name: "trap-handler-family", prog: p }
}

/// Programs that parse without errors but that the analyzer may be unable to analyse (C16).
pub fn failure_shapes(rng: &mut Rng) -> Vec<Shape> {
    let mut v = Vec::new();
    let k = rng.range(1, 50) as i32;
    let mk = |name: &'static str, f: &dyn Fn(&mut Program)| {
        let mut p = Program::default();
        p.label("main");
        p.push(Ins::li(A0, k));
        f(&mut p);
        Shape { name, prog: p }
    };
    // undefined labels in every kind of user
    v.push(mk("undefined-in-jump", &|p| {
        p.push(Ins::j("nowhere"));
        exit(p);
    }));
    v.push(mk("undefined-in-branch", &|p| {
        p.push(Ins::Branch { c: Cond::Eq, rs1: A0, rs2: ZERO, label: "nowhere".into() });
        exit(p);
    }));
    v.push(mk("undefined-in-call", &|p| {
        p.push(Ins::call("nowhere"));
        exit(p);
    }));
    v.push(mk("undefined-in-la", &|p| {
        p.push(Ins::La { rd: 5, label: "nowhere".into() });
        p.push(Ins::mv(A0, 5));
        exit(p);
    }));
    // (branches that compare the zero register with itself are never or always taken: their label
    // is used all the same)
    let zc = *rng.pick(&ALL_COND);
    v.push(mk("undefined-in-branch-on-zero-registers", &|p| {
        p.push(Ins::Branch { c: zc, rs1: ZERO, rs2: ZERO, label: "nowhere".into() });
        exit(p);
    }));
    v.push(mk("label-at-end-of-file-in-branch-on-zero-registers", &|p| {
        p.push(Ins::Branch { c: zc, rs1: ZERO, rs2: ZERO, label: "the_end".into() });
        exit(p);
        p.label("the_end");
    }));
    v.push(mk("undefined-several", &|p| {
        p.push(Ins::Branch { c: Cond::Eq, rs1: A0, rs2: ZERO, label: "nowhere_a".into() });
        p.push(Ins::call("nowhere_b"));
        p.push(Ins::j("nowhere_c"));
        exit(p);
    }));
    v.push(mk("duplicate-label", &|p| {
        p.label("again");
        p.push(Ins::addi(A0, A0, 1));
        p.label("again");
        p.push(Ins::addi(A0, A0, 1));
        exit(p);
    }));
    v.push(mk("duplicate-label-function", &|p| {
        p.push(Ins::call("dup"));
        exit(p);
        p.label("dup");
        p.push(Ins::ret());
        p.label("dup");
        p.push(Ins::ret());
    }));
    v.push(mk("duplicate-label-adjacent", &|p| {
        p.label("again");
        p.label("again");
        p.push(Ins::addi(A0, A0, 1));
        exit(p);
    }));
    v.push(mk("duplicate-label-at-end-of-file", &|p| {
        exit(p);
        p.label("tail");
        p.label("tail");
    }));
    v.push(mk("duplicate-data-label", &|p| {
        p.push(Ins::La { rd: 5, label: "table".into() });
        p.push(Ins::mv(A0, 5));
        exit(p);
        p.lines.push(Line::SecData);
        p.label("table");
        p.lines.push(Line::Data(Data::Word(vec![1, 2, 3])));
        p.label("count");
        p.lines.push(Line::Data(Data::Word(vec![3])));
        p.label("table");
        p.lines.push(Line::Data(Data::Word(vec![4, 5, 6])));
    }));
    v.push(mk("duplicate-data-label-before-code", &|p| {
        p.lines.insert(0, Line::Data(Data::Word(vec![7])));
        p.lines.insert(0, Line::Label("table".into()));
        p.lines.insert(0, Line::Data(Data::Space(8)));
        p.lines.insert(0, Line::Label("table".into()));
        p.lines.insert(0, Line::SecData);
        let at = p.lines.iter().position(|l| matches!(l, Line::Label(x) if x == "main")).unwrap_or(0);
        p.lines.insert(at, Line::SecText);
        exit(p);
    }));
    v.push(mk("data-label-equals-code-label", &|p| {
        p.push(Ins::call("both"));
        exit(p);
        p.label("both");
        p.push(Ins::ret());
        p.lines.push(Line::SecData);
        p.label("both");
        p.lines.push(Line::Data(Data::Word(vec![1])));
    }));
    // labels that no instruction follows
    v.push(mk("jump-to-label-at-end-of-file", &|p| {
        p.push(Ins::Branch { c: Cond::Eq, rs1: A0, rs2: ZERO, label: "the_end".into() });
        exit(p);
        p.label("the_end");
    }));
    v.push(mk("call-to-label-at-end-of-file", &|p| {
        p.push(Ins::call("the_end"));
        exit(p);
        p.label("the_end");
    }));
    v.push(mk("jump-to-label-before-directives-only", &|p| {
        p.push(Ins::j("only_data"));
        exit(p);
        p.label("only_data");
        p.lines.push(Line::SecData);
        p.lines.push(Line::Data(Data::Word(vec![1, 2])));
    }));
    // (a section directive that names the segment the label already stands in ends nothing)
    v.push(mk("label-in-front-of-a-redundant-section-directive", &|p| {
        p.push(Ins::call("again_text"));
        exit(p);
        p.lines.push(Line::SecText);
        p.label("again_text");
        p.lines.push(Line::SecText);
        p.push(Ins::addi(A0, A0, 1));
        p.push(Ins::ret());
    }));
    // functions without a return
    v.push(mk("function-infinite-loop", &|p| {
        p.push(Ins::call("spin"));
        exit(p);
        p.label("spin");
        p.push(Ins::addi(A0, A0, 1));
        p.push(Ins::j("spin"));
    }));
    v.push(mk("function-infinite-loop-several-labels", &|p| {
        p.push(Ins::call("spin_b"));
        p.push(Ins::call("spin_a"));
        exit(p);
        p.label("spin_b");
        p.label("spin_c");
        p.label("spin_a");
        p.push(Ins::addi(A0, A0, 1));
        p.push(Ins::j("spin_c"));
    }));
    // interrupt handlers (entries that no call names) that never return
    v.push(mk("interrupt-handler-infinite-loop", &|p| {
        p.push(Ins::La { rd: 5, label: "handler".into() });
        p.push(Ins::Csrrw { rd: ZERO, csr: 5, rs1: 5 });
        exit(p);
        p.label("handler");
        p.push(Ins::addi(A0, A0, 1));
        p.push(Ins::j("handler"));
    }));
    v.push(mk("interrupt-handler-exits", &|p| {
        p.push(Ins::La { rd: 6, label: "on_trap".into() });
        p.push(Ins::Csrrw { rd: ZERO, csr: 5, rs1: 6 });
        exit(p);
        p.label("on_trap");
        p.label("on_trap_alias");
        p.push(Ins::Csrrs { rd: A0, csr: 0x42, rs1: ZERO });
        p.push(Ins::li(A7, 93));
        p.push(Ins::Ecall);
    }));
    v.push(mk("function-exits-inside", &|p| {
        p.push(Ins::call("bye"));
        exit(p);
        p.label("bye");
        p.push(Ins::li(A7, 10));
        p.push(Ins::Ecall);
    }));
    // (a function that leaves only through exit ecalls, one of which is recognised only after the edge behind
    // another exit has been cut: the `ret` behind them is dead, the function cannot return)
    let (n1, n2) = *rng.pick(&[(10, 93), (93, 10), (10, 10)]);
    let three = rng.chance(0.4);
    v.push(mk("must-fail:function-leaves-only-through-exits", &|p| {
        p.push(Ins::call("bye"));
        exit(p);
        p.label("bye");
        p.push(Ins::li(A7, n1));
        p.push(Ins::Branch { c: Cond::Eq, rs1: A0, rs2: ZERO, label: "second".into() });
        if three {
            p.push(Ins::Branch { c: Cond::Eq, rs1: 11, rs2: ZERO, label: "third".into() });
        }
        p.push(Ins::li(A7, n2));
        p.push(Ins::Ecall);
        p.label("second");
        p.push(Ins::Ecall);
        if three {
            p.label("third");
            p.push(Ins::Ecall);
        }
        p.push(Ins::ret());
    }));
    v.push(mk("function-falls-off-end", &|p| {
        p.push(Ins::call("open_end"));
        exit(p);
        p.label("open_end");
        p.push(Ins::addi(A0, A0, 1));
    }));
    // returns outside functions
    v.push(mk("ret-at-top-level", &|p| {
        p.push(Ins::addi(A0, A0, 1));
        p.push(Ins::ret());
    }));
    v.push(mk("ret-after-exit", &|p| {
        exit(p);
        p.push(Ins::ret());
    }));
    // calls into data labels
    v.push(mk("call-to-data-label", &|p| {
        p.push(Ins::call("table"));
        exit(p);
        p.lines.push(Line::SecData);
        p.label("table");
        p.lines.push(Line::Data(Data::Word(vec![1, 2, 3])));
    }));
    v.push(mk("call-to-data-label-before-code", &|p| {
        p.push(Ins::call("table"));
        exit(p);
        p.lines.push(Line::SecData);
        p.label("table");
        p.lines.push(Line::Data(Data::Word(vec![1, 2, 3])));
        p.lines.push(Line::SecText);
        p.label("after");
        p.push(Ins::addi(A0, A0, 1));
        p.push(Ins::ret());
    }));
    v.push(mk("lw-from-undefined-label", &|p| {
        p.lines.push(Line::Raw("    lw a0, nowhere".into()));
        exit(p);
    }));
    // (an undefined label is undefined whatever it is called: names that resemble registers, mnemonics,
    // CSR names; the word zero in any case is an immediate by the repository's own unit test)
    let odd = *rng.pick(&["X5", "A0", "Sp", "RA", "Utvec", "ret_", "Li", "T7", "s12", "x32"]);
    let odd_use = *rng.pick(&["lw a0, {}", "sw a0, {}, t0", "lb a0, {}", "sh a0, {}, t1"]);
    v.push(mk("load-or-store-names-an-undefined-label-with-an-odd-name", &|p| {
        p.lines.push(Line::Raw(format!("    {}", odd_use.replace("{}", odd))));
        exit(p);
    }));
    // empty and label-only programs
    v.push(Shape { name: "only-a-label", prog: Program { lines: vec![Line::Label("lonely".into())] } });
    v.push(Shape { name: "only-data", prog: Program { lines: vec![Line::SecData, Line::Label("d".into()), Line::Data(Data::Word(vec![1]))] } });
    v
}

/// Loop-carried stack slots (C01, C12): one framed function with two or three nested counting loops;
/// slots are given known values (constants, the entry values of saved registers, sp-relative
/// addresses) before and inside the loops, are loaded at loop heads and in bodies, and are overwritten
/// deep inside the nest, behind conditional jumps back to an outer head. Every claim about a slot at a
/// loop head has to be retracted across the right back edge.
pub fn slot_loop_family(rng: &mut Rng) -> Shape {
    let mut p = Program::default();
    let k0 = rng.range(0, 4) as i32;
    p.label("main");
    p.push(Ins::li(A0, k0));
    p.push(Ins::li(11, rng.range(0, 5) as i32));
    p.push(Ins::li(12, rng.range(0, 3) as i32));
    p.push(Ins::call("walk"));
    p.push(Ins::mv(A0, A0));
    exit(&mut p);
    p.label("walk");
    p.push(Ins::addi(SP, SP, -32));
    p.push(Ins::sw(8, 28, SP));
    p.push(Ins::sw(9, 24, SP));
    let slots = [0, 4, 8, 12, 16];
    let vals = [5u8, 6, 7, 28]; // t0 t1 t2 t3
    let counters = [29u8, 30, 31]; // t4 t5 t6
    let mut label_n = 0;
    // one statement of the family
    fn stmt(p: &mut Program, rng: &mut Rng, slots: &[i32], vals: &[Reg]) {
        let s = slots[rng.below(slots.len())];
        let v = vals[rng.below(vals.len())];
        match rng.below(9) {
            0 | 1 => p.push(Ins::lw(v, s, SP)),
            2 => {
                p.push(Ins::li(v, rng.range(-9, 9) as i32));
                p.push(Ins::sw(v, s, SP));
            }
            3 => p.push(Ins::sw(*rng.pick(&[8u8, 9]), s, SP)),
            4 => p.push(Ins::lw(*rng.pick(&[8u8, 9]), s, SP)),
            5 => p.push(Ins::addi(*rng.pick(&[8u8, 9]), *rng.pick(&[8u8, 9]), 1)),
            6 => {
                p.push(Ins::addi(v, SP, s));
                p.push(Ins::sw(v, slots[rng.below(slots.len())], SP));
            }
            7 => p.push(Ins::sw(v, s, SP)),
            _ => p.push(Ins::Store { w: *rng.pick(&[StoreW::B, StoreW::H]), rs2: v, off: s + 2 * rng.below(2) as i32, base: SP }),
        }
    }
    for _ in 0..1 + rng.below(4) {
        stmt(&mut p, rng, &slots, &vals);
    }
    if rng.chance(0.5) {
        // backbone: a slot with a known value is loaded at the head of an outer loop and overwritten
        // in an inner loop *behind* the conditional jump back to the outer head, so that the
        // retraction of the fact has to travel over two back edges; everything else touches other slots
        let hot = slots[rng.below(slots.len())];
        let others: Vec<i32> = slots.iter().copied().filter(|x| *x != hot).collect();
        match rng.below(3) {
            0 => p.push(Ins::sw(*rng.pick(&[8u8, 9]), hot, SP)),
            1 => {
                p.push(Ins::li(5, rng.range(-9, 9) as i32));
                p.push(Ins::sw(5, hot, SP));
            }
            _ => {
                p.push(Ins::addi(5, SP, *rng.pick(&[0, 4, 8])));
                p.push(Ins::sw(5, hot, SP));
            }
        }
        let n_outer = 1 + rng.below(2);
        let mut heads: Vec<String> = Vec::new();
        for d in 0..n_outer {
            let h = format!("outer_{d}");
            p.label(&h);
            heads.push(h);
            for _ in 0..rng.below(2) {
                stmt(&mut p, rng, &others, &vals);
            }
        }
        let dest = *rng.pick(&[8u8, 9, 6, 7]);
        p.push(Ins::lw(dest, hot, SP));
        for _ in 0..rng.below(2) {
            stmt(&mut p, rng, &others, &vals);
        }
        p.label("inner");
        p.push(Ins::addi(11, 11, -1));
        for _ in 0..rng.below(2) {
            stmt(&mut p, rng, &others, &vals);
        }
        p.push(Ins::Branch { c: *rng.pick(&[Cond::Eq, Cond::Lt]), rs1: 11, rs2: *rng.pick(&[12u8, A0]), label: heads[rng.below(heads.len())].clone() });
        let src = *rng.pick(&[11u8, 12, 28, 9]);
        p.push(Ins::sw(src, hot, SP));
        for _ in 0..rng.below(2) {
            stmt(&mut p, rng, &others, &vals);
        }
        p.push(Ins::Branch { c: Cond::Lt, rs1: ZERO, rs2: 11, label: "inner".into() });
        if rng.chance(0.5) {
            p.push(Ins::lw(*rng.pick(&[8u8, 9, 6]), hot, SP));
        }
        p.push(Ins::lw(9, 24, SP));
        p.push(Ins::lw(8, 28, SP));
        p.push(Ins::addi(SP, SP, 32));
        p.push(Ins::ret());
        return Shape { name: "loop-carried-slots-backbone", prog: p };
    }
    let depth = 2 + rng.below(2);
    let mut heads: Vec<String> = Vec::new();
    for d in 0..depth {
        label_n += 1;
        let head = format!("head_{label_n}");
        p.push(Ins::li(counters[d], 1 + rng.below(3) as i32));
        p.label(&head);
        heads.push(head);
        for _ in 0..rng.below(4) {
            stmt(&mut p, rng, &slots, &vals);
        }
    }
    // innermost body: statements and conditional jumps back to outer heads
    for _ in 0..1 + rng.below(5) {
        if rng.chance(0.3) {
            let target = heads[rng.below(heads.len())].clone();
            // (guarded by a value that goes down, so that executions end)
            p.push(Ins::addi(A0, A0, -1));
            p.push(Ins::Branch { c: Cond::Lt, rs1: ZERO, rs2: A0, label: target });
        } else {
            stmt(&mut p, rng, &slots, &vals);
        }
    }
    for d in (0..depth).rev() {
        p.push(Ins::addi(counters[d], counters[d], -1));
        p.push(Ins::Branch { c: Cond::Lt, rs1: ZERO, rs2: counters[d], label: heads[d].clone() });
        for _ in 0..rng.below(3) {
            stmt(&mut p, rng, &slots, &vals);
        }
    }
    p.push(Ins::lw(9, 24, SP));
    p.push(Ins::lw(8, 28, SP));
    p.push(Ins::addi(SP, SP, 32));
    p.push(Ins::ret());
    Shape { name: "loop-carried-slots", prog: p }
}

/// Exit ecalls whose number is inherited (C03, C11, C12): a7 is loaded once for a common path and
/// overridden on another; the second `ecall` stands directly behind the first one and gets its a7
/// only from a jump around it. Only a second round of "which ecalls are exits" can see that it is an
/// exit too. More code (a function) follows, so an edge that wrongly survives is visible.
pub fn exit_ecall_family(rng: &mut Rng) -> Shape {
    let mut p = Program::default();
    let e1 = *rng.pick(&[10, 93]);
    let e2 = *rng.pick(&[10, 93]);
    let non_exit = rng.chance(0.25);
    p.label("main");
    if rng.chance(0.7) {
        p.push(Ins::call("check"));
    } else {
        p.push(Ins::li(A0, rng.range(0, 2) as i32));
    }
    // the common number (sometimes not an exit at all: then the second ecall really falls through)
    p.push(Ins::li(A7, if non_exit { 1 } else { e1 }));
    p.push(Ins::Branch { c: *rng.pick(&[Cond::Eq, Cond::Ne]), rs1: A0, rs2: ZERO, label: "done".into() });
    if rng.chance(0.6) {
        p.push(Ins::li(A0, 1));
    }
    p.push(Ins::li(A7, e2));
    p.push(Ins::Ecall);
    p.label("done");
    if rng.chance(0.4) {
        p.push(Ins::addi(A0, A0, 0));
    }
    p.push(Ins::Ecall);
    if non_exit {
        exit(&mut p);
    }
    p.label("check");
    p.push(Ins::li(A0, rng.range(0, 2) as i32));
    if rng.chance(0.5) {
        p.push(Ins::addi(A0, A0, 1));
    }
    p.push(Ins::ret());
    Shape { name: "exit-number-inherited", prog: p }
}

/// A program full of boundary immediates (C13, C17): 32-bit constants around 0, 2^11, 2^12, 2^31 and
/// 2^32 in `li`, 12-bit immediates at both ends of their range, 20-bit `lui` operands, shift amounts
/// 0 and 31, memory offsets at the ends of the range. Whatever diagnostics it draws, they must not
/// depend on the notation the numbers are written in.
pub fn literal_family(rng: &mut Rng) -> Shape {
    let mut p = Program::default();
    p.label("main");
    p.push(Ins::li(9, 0));
    let temps = [5u8, 6, 7, 28, 29, 30, 31];
    const BIG: [i32; 14] = [i32::MIN, i32::MIN, i32::MIN + 1, i32::MAX, i32::MAX - 1, -1, 0, 1, 0x800, -0x801, 0x7ff, -0x800, 0x1000, -0x1000];
    const SMALL: [i32; 8] = [-2048, -2047, -1, 0, 1, 2046, 2047, 1024];
    for _ in 0..8 + rng.below(10) {
        let t = temps[rng.below(temps.len())];
        match rng.below(8) {
            0..=2 => p.push(Ins::li(t, if rng.chance(0.7) { BIG[rng.below(BIG.len())] } else { rng.interesting_i32() })),
            3 => {
                p.push(Ins::li(t, rng.range(-50, 50) as i32));
                p.push(Ins::AluI { op: *rng.pick(&[AluOp::Add, AluOp::And, AluOp::Or, AluOp::Xor, AluOp::Slt, AluOp::Sltu]), rd: t, rs1: t, imm: SMALL[rng.below(SMALL.len())] });
            }
            4 => p.push(Ins::Lui { rd: t, imm: *rng.pick(&[0, 1, 0x7ffff, 0x80000, 0xfffff, 0x12345]) }),
            5 => {
                p.push(Ins::li(t, rng.interesting_i32()));
                p.push(Ins::AluI { op: *rng.pick(&[AluOp::Sll, AluOp::Srl, AluOp::Sra]), rd: t, rs1: t, imm: *rng.pick(&[0, 1, 31, 16]) });
            }
            6 => {
                p.push(Ins::La { rd: t, label: "buf".into() });
                p.push(Ins::lw(t, *rng.pick(&[0, 4, 2044, -4, -2048]), t));
            }
            _ => {
                p.push(Ins::li(t, BIG[rng.below(BIG.len())]));
                p.push(Ins::La { rd: 10, label: "buf".into() });
                p.push(Ins::sw(t, *rng.pick(&[0, 4, 8, 2044]), 10));
            }
        }
        p.push(Ins::Alu { op: AluOp::Xor, rd: 9, rs1: 9, rs2: t });
    }
    p.push(Ins::mv(A0, 9));
    p.push(Ins::li(A7, 1));
    p.push(Ins::Ecall);
    exit(&mut p);
    p.lines.push(Line::SecData);
    p.label("buf");
    p.lines.push(Line::Data(Data::Space(4096)));
    Shape { name: "boundary-literals", prog: p }
}

/// CSR traffic (C01, C12): a straight-line function over one or two user CSRs with every write form
/// (csrrw with rd = zero / another register / the same register, csrrs with zero and non-zero source,
/// csrrwi), reads in between, and word / half / byte stores and loads through a pointer taken from a
/// CSR, at overlapping offsets; optionally a call to a function that rewrites the CSR.
pub fn csr_family(rng: &mut Rng) -> Shape {
    let mut p = Program::default();
    let csrs = [0x40u32, 0x43];
    let regs = [5u8, 6, 7, 28, 29, 9, 18];
    p.label("main");
    p.push(Ins::La { rd: 5, label: "area".into() });
    p.push(Ins::Csrrw { rd: ZERO, csr: 0x40, rs1: 5 });
    p.push(Ins::li(A0, rng.range(0, 9) as i32));
    p.push(Ins::call("work"));
    p.push(Ins::mv(A0, A0));
    exit(&mut p);
    p.label("work");
    let with_call = rng.chance(0.4);
    if with_call {
        p.push(Ins::addi(SP, SP, -16));
        p.push(Ins::sw(RA, 12, SP));
    }
    for _ in 0..6 + rng.below(12) {
        let csr = csrs[rng.below(2)];
        let a = regs[rng.below(regs.len())];
        let b = regs[rng.below(regs.len())];
        // (pointer holders that are *not* refreshed in front of each access: a pointer read from the CSR
        // earlier stays what it was when the CSR is written, here or in a callee)
        let holder = *rng.pick(&[9u8, 18, 7]);
        match rng.below(18) {
            17 => {
                // the whole situation at once: pointer read, CSR replaced (here or in a callee), new pointer
                // read, a constant stored through the new one, the word behind the old one loaded
                let off = *rng.pick(&[0, 4, 8]);
                p.push(Ins::Csrrs { rd: holder, csr: 0x40, rs1: ZERO });
                if with_call && rng.chance(0.5) {
                    p.push(Ins::call("scramble"));
                } else {
                    p.push(Ins::La { rd: 30, label: "other".into() });
                    p.push(Ins::Csrrw { rd: ZERO, csr: 0x40, rs1: 30 });
                }
                p.push(Ins::Csrrs { rd: 28, csr: 0x40, rs1: ZERO });
                p.push(Ins::li(29, rng.range(20, 90) as i32));
                p.push(Ins::Store { w: StoreW::W, rs2: 29, off, base: 28 });
                p.push(Ins::Load { w: LoadW::W, rd: b, off, base: holder });
            }
            14 => p.push(Ins::Csrrs { rd: holder, csr: 0x40, rs1: ZERO }),
            15 => p.push(Ins::Store { w: StoreW::W, rs2: b, off: *rng.pick(&[0, 4, 8]), base: holder }),
            16 => p.push(Ins::Load { w: LoadW::W, rd: b, off: *rng.pick(&[0, 4, 8]), base: holder }),
            0 => p.push(Ins::Csrrwi { rd: *rng.pick(&[ZERO, a]), csr, imm: rng.range(0, 31) as i32 }),
            1 => p.push(Ins::Csrrw { rd: ZERO, csr, rs1: a }),
            2 => p.push(Ins::Csrrw { rd: a, csr, rs1: a }),
            3 => p.push(Ins::Csrrw { rd: b, csr, rs1: a }),
            4 => p.push(Ins::Csrrs { rd: a, csr, rs1: ZERO }),
            5 => p.push(Ins::Csrrs { rd: *rng.pick(&[ZERO, b]), csr, rs1: a }),
            6 => p.push(Ins::li(a, rng.range(-5, 300) as i32)),
            7 => {
                // a pointer from the CSR that was set up in main, and a store through it
                p.push(Ins::Csrrs { rd: a, csr: 0x40, rs1: ZERO });
                p.push(Ins::Store { w: *rng.pick(&[StoreW::W, StoreW::W, StoreW::H, StoreW::B]), rs2: b, off: *rng.pick(&[0, 4, 2, 1, 8]), base: a });
            }
            8 => {
                p.push(Ins::Csrrs { rd: a, csr: 0x40, rs1: ZERO });
                p.push(Ins::Load { w: *rng.pick(&[LoadW::W, LoadW::W, LoadW::H, LoadW::B, LoadW::Bu]), rd: b, off: *rng.pick(&[0, 4, 2, 1, 8]), base: a });
            }
            9 => p.push(Ins::La { rd: a, label: "area".into() }),
            10 if with_call => p.push(Ins::call("scramble")),
            11 => p.push(Ins::Alu { op: AluOp::Add, rd: a, rs1: a, rs2: b }),
            12 => p.push(Ins::lw(a, 0, A0)),
            _ => p.push(Ins::addi(a, b, rng.range(-3, 3) as i32)),
        }
    }
    p.push(Ins::Alu { op: AluOp::Add, rd: A0, rs1: 5, rs2: 6 });
    if with_call {
        p.push(Ins::lw(RA, 12, SP));
        p.push(Ins::addi(SP, SP, 16));
    }
    p.push(Ins::ret());
    p.label("scramble");
    p.push(Ins::La { rd: 31, label: "other".into() });
    p.push(Ins::Csrrw { rd: ZERO, csr: *rng.pick(&[0x40u32, 0x43]), rs1: 31 });
    p.push(Ins::ret());
    p.lines.push(Line::SecData);
    p.label("area");
    p.lines.push(Line::Data(Data::Word(vec![0x1234, 0x55, 7, 9])));
    p.label("other");
    p.lines.push(Line::Data(Data::Word(vec![3, 4, 5, 6])));
    Shape { name: "csr-traffic", prog: p }
}

/// Cycles that are entered and closed by jumps which also define a register (`jal t0, L`; C06, C12): a
/// "must" fact defined by such a jump can chase itself round the cycle.
pub fn linking_jump_cycle_family(rng: &mut Rng) -> Shape {
    let mut p = Program::default();
    let n = 3 + rng.below(4);
    let link = |rng: &mut Rng| *rng.pick(&[5u8, 6, 11, 12, 28, 0, 0]);
    let with_main = rng.chance(0.5);
    if with_main {
        p.label("main");
    }
    // entered from behind: the first statement jumps to the last block
    p.push(Ins::Jal { rd: link(rng), label: format!("blk_{}", n - 1) });
    for k in 0..n {
        p.label(&format!("blk_{k}"));
        for _ in 0..rng.below(3) {
            match rng.below(4) {
                0 => p.push(Ins::addi(*rng.pick(&[9u8, 18, 5]), *rng.pick(&[6u8, 7, 28]), 0)),
                1 => p.push(Ins::li(*rng.pick(&[17u8, 10, 6]), rng.range(0, 12) as i32)),
                2 => p.push(Ins::Branch { c: *rng.pick(&[Cond::Eq, Cond::Ne]), rs1: *rng.pick(&[10u8, 17, 6]), rs2: ZERO, label: format!("blk_{}", rng.below(n)) }),
                _ => p.push(Ins::Alu { op: AluOp::Add, rd: *rng.pick(&[10u8, 12]), rs1: 31, rs2: 6 }),
            }
        }
        // each block leaves through a (linking) jump to an earlier or later block
        let to = if k == 0 { rng.below(n) } else { rng.below(k + 1) };
        if k + 1 == n || rng.chance(0.7) {
            p.push(Ins::Jal { rd: link(rng), label: format!("blk_{to}") });
        }
    }
    if rng.chance(0.3) {
        exit(&mut p);
    }
    Shape { name: "linking-jump-cycle", prog: p }
}

/// A function that loops back to its own entry label (C01, C03, C11): what is known "at entry" is
/// known once, not again on every turn of the loop.
pub fn self_loop_family(rng: &mut Rng) -> Shape {
    let mut p = Program::default();
    p.label("main");
    p.push(Ins::li(A0, 1 + rng.range(0, 3) as i32));
    p.push(Ins::call("again"));
    p.push(Ins::mv(A0, A0));
    exit(&mut p);
    p.label("again");
    if rng.chance(0.5) {
        p.label("again_loop");
    }
    let s = *rng.pick(&[8u8, 9, 18]);
    for _ in 0..1 + rng.below(3) {
        match rng.below(4) {
            0 => p.push(Ins::addi(s, s, 1)),
            1 => p.push(Ins::addi(SP, SP, *rng.pick(&[-16, -4]))),
            2 => p.push(Ins::addi(*rng.pick(&[5u8, 6]), s, 2)),
            _ => p.push(Ins::sw(s, -4, SP)),
        }
    }
    p.push(Ins::addi(A0, A0, -1));
    p.push(Ins::Branch { c: Cond::Lt, rs1: ZERO, rs2: A0, label: "again".into() });
    if rng.chance(0.5) {
        p.push(Ins::addi(SP, SP, 16));
    }
    p.push(Ins::ret());
    Shape { name: "function-loops-to-its-own-entry", prog: p }
}

/// Environment calls that RARS has but the analyzer's table does not list (C01): whatever the
/// analyzer assumes about them, it must not go on claiming values for registers they write.
pub fn unlisted_ecall_family(rng: &mut Rng) -> Shape {
    let mut p = Program::default();
    p.label("main");
    p.push(Ins::La { rd: A0, label: "msg".into() });
    p.push(Ins::li(11, rng.range(1, 40) as i32));
    p.push(Ins::li(5, rng.range(1, 40) as i32));
    p.push(Ins::li(A7, *rng.pick(&[52, 53])));
    p.push(Ins::Ecall);
    if rng.chance(0.5) {
        p.push(Ins::mv(A7, 11));
        p.push(Ins::Ecall);
    }
    p.push(Ins::Alu { op: AluOp::Add, rd: 6, rs1: 11, rs2: 5 });
    p.push(Ins::mv(A0, 6));
    p.push(Ins::li(A7, 1));
    p.push(Ins::Ecall);
    exit(&mut p);
    p.lines.push(Line::SecData);
    p.label("msg");
    p.lines.push(Line::Data(Data::Asciz("value?".into())));
    Shape { name: "ecall-not-in-the-analyzers-table", prog: p }
}

/// A conforming program whose frame is 4 KiB or more (C04): the size does not fit an `addi`, so it
/// is built in a register with `lui` (+ `addi`) or `li`, subtracted from sp and added back.
pub fn big_frame_family(rng: &mut Rng) -> Shape {
    let mut p = Program::default();
    let frame: i32 = *rng.pick(&[4096, 8192, 4112, 12288, 4096 + 2032, 65536]);
    let load = |p: &mut Program, rd: Reg, k: i32, rng: &mut Rng| {
        if rng.chance(0.3) {
            p.push(Ins::li(rd, k));
        } else {
            let hi = (k.wrapping_add(0x800) as u32) >> 12;
            let lo = k.wrapping_sub((hi << 12) as i32);
            p.push(Ins::Lui { rd, imm: hi as i32 });
            if lo != 0 {
                p.push(Ins::addi(rd, rd, lo));
            }
        }
    };
    p.label("main");
    p.push(Ins::li(A0, rng.range(1, 9) as i32));
    p.push(Ins::call("work"));
    p.push(Ins::li(A7, 1));
    p.push(Ins::Ecall);
    exit(&mut p);
    p.label("work");
    let t = *rng.pick(&[5u8, 6, 28]);
    load(&mut p, t, frame, rng);
    p.push(Ins::Alu { op: AluOp::Sub, rd: SP, rs1: SP, rs2: t });
    p.push(Ins::sw(8, 0, SP));
    p.push(Ins::sw(9, 4, SP));
    p.push(Ins::addi(8, A0, 1));
    p.push(Ins::Alu { op: AluOp::Add, rd: 9, rs1: 8, rs2: 8 });
    p.push(Ins::sw(9, 8, SP));
    p.push(Ins::lw(A0, 8, SP));
    p.push(Ins::lw(9, 4, SP));
    p.push(Ins::lw(8, 0, SP));
    let t2 = *rng.pick(&[5u8, 6, 7]);
    load(&mut p, t2, frame, rng);
    p.push(Ins::Alu { op: AluOp::Add, rd: SP, rs1: SP, rs2: t2 });
    p.push(Ins::ret());
    Shape { name: "frame-of-4-KiB-or-more", prog: p }
}

/// A maze of environment calls (C12, C03): top-level code without functions, three to six `ecall`s
/// whose number comes straight from `li a7`, from a register that holds different constants on different
/// paths, or from whatever the previous block left; forward branches around the blocks. Which ecalls
/// are exits depends on which edges have been cut already - the result must be a fixed point all the same.
pub fn ecall_maze_family(rng: &mut Rng) -> Shape {
    let mut p = Program::default();
    let n = 3 + rng.below(4);
    let nums = [10, 93, 10, 93, 1, 5, 34];
    p.label("main");
    p.push(Ins::li(9, rng.range(1, 9) as i32));
    p.push(Ins::li(A7, *rng.pick(&nums)));
    p.push(Ins::li(5, *rng.pick(&nums)));
    if rng.chance(0.5) {
        p.push(Ins::li(11, *rng.pick(&nums)));
        p.push(Ins::li(12, *rng.pick(&nums)));
    }
    // forward branches into the maze
    let mut targets: Vec<usize> = (1..n).collect();
    rng.shuffle(&mut targets);
    for (k, t) in targets.iter().take(1 + rng.below(3)).enumerate() {
        p.push(Ins::Branch { c: Cond::Eq, rs1: 10 + k as u8, rs2: ZERO, label: format!("blk_{t}") });
    }
    for b in 0..n {
        if b > 0 {
            p.label(&format!("blk_{b}"));
        }
        for _ in 0..rng.below(3) {
            match rng.below(6) {
                // (the number also travels in a0 / a1 / a2: whether it survives an ecall depends on which
                // registers that ecall is known to overwrite)
                0 => p.push(Ins::li(*rng.pick(&[5u8, 5, 10, 11, 12]), *rng.pick(&nums))),
                1 => p.push(Ins::li(A7, *rng.pick(&nums))),
                2 => p.push(Ins::mv(A7, *rng.pick(&[5u8, 5, 10, 11, 12]))),
                3 => p.push(Ins::mv(A0, 9)),
                4 => p.push(Ins::addi(0, 0, 0)),
                _ => {
                    if b + 1 < n {
                        let t = b + 1 + rng.below(n - b - 1);
                        p.push(Ins::Branch { c: Cond::Eq, rs1: 11, rs2: ZERO, label: format!("blk_{t}") });
                    }
                }
            }
        }
        p.push(Ins::Ecall);
    }
    p.push(Ins::li(A7, 10));
    p.push(Ins::Ecall);
    Shape { name: "maze-of-ecalls", prog: p }
}
