//! Verdicts, evidence files, known findings and replay files.

use serde_json::{json, Map, Value};
use std::collections::{BTreeMap, HashSet};
use std::path::PathBuf;
use std::time::Instant;

#[derive(Clone, Copy, Debug, PartialEq, Eq)]
pub enum Tier {
    Quick,
    Thorough,
}

impl Tier {
    pub fn as_str(self) -> &'static str {
        match self {
            Tier::Quick => "quick",
            Tier::Thorough => "thorough",
        }
    }
    /// Pick a budget by tier.
    pub fn pick<T>(self, quick: T, thorough: T) -> T {
        match self {
            Tier::Quick => quick,
            Tier::Thorough => thorough,
        }
    }
}

#[derive(Clone, Debug)]
pub struct Ctx {
    pub prop: String,
    pub tier: Tier,
    pub seed: u64,
    /// /verif
    pub root: PathBuf,
    /// number of worker threads / processes
    pub jobs: usize,
    /// path of the `rva` binary built from the repo's working tree (checked profile)
    pub rva_checked: PathBuf,
    /// same, release profile
    pub rva_release: PathBuf,
    /// path of this executable (for worker children)
    pub self_exe: PathBuf,
    /// are we the checked (overflow-checks, debug-assertions) build of the harness?
    pub checked_build: bool,
    /// free-form tag of this run ("release-build" for the second run of BOTH_BUILDS properties)
    pub tag: String,
    /// replay file to re-check instead of generating a workload
    pub replay: Option<PathBuf>,
    /// child mode: (index of the `run_sharded` call, shard) to execute, and where to put the result
    pub shard: Option<(usize, usize)>,
    pub acc_out: Option<PathBuf>,
}

#[derive(Clone, Debug)]
pub struct Known {
    pub property: String,
    pub signature: String,
    pub status: String,
    pub what: String,
}

pub fn load_known(root: &std::path::Path) -> Vec<Known> {
    let p = root.join("known_findings.json");
    let Ok(text) = std::fs::read_to_string(&p) else {
        return Vec::new();
    };
    let v: Value = serde_json::from_str(&text).expect("known_findings.json is not valid JSON");
    let mut out = Vec::new();
    for e in v["findings"].as_array().cloned().unwrap_or_default() {
        out.push(Known {
            property: e["property"].as_str().unwrap_or("").to_string(),
            signature: e["signature"].as_str().unwrap_or("").to_string(),
            status: e["status"].as_str().unwrap_or("").to_string(),
            what: e["what"].as_str().unwrap_or("").to_string(),
        });
    }
    out
}

#[derive(Clone, Debug, serde::Serialize, serde::Deserialize)]
pub struct Violation {
    pub signature: String,
    pub what: String,
    pub replay: Value,
}

/// Per-shard (thread) accumulator; merged into one `Report` at the end.
#[derive(Default, Clone, Debug, serde::Serialize, serde::Deserialize)]
pub struct Acc {
    pub evaluations: u64,
    pub nontrivial: HashSet<u64>,
    pub counters: BTreeMap<String, u64>,
    pub sets: BTreeMap<String, HashSet<String>>,
    pub samples: Vec<Value>,
    pub violations: Vec<Violation>,
    pub inconclusive: Vec<String>,
}

impl Acc {
    pub fn new() -> Self {
        Self::default()
    }
    pub fn count(&mut self, key: &str, n: u64) {
        *self.counters.entry(key.to_string()).or_insert(0) += n;
    }
    pub fn max(&mut self, key: &str, n: u64) {
        let e = self.counters.entry(key.to_string()).or_insert(0);
        if n > *e {
            *e = n;
        }
    }
    pub fn note(&mut self, set: &str, item: impl Into<String>) {
        let s = self.sets.entry(set.to_string()).or_default();
        if s.len() < 5000 {
            s.insert(item.into());
        }
    }
    pub fn sample(&mut self, v: Value) {
        if self.samples.len() < 4 {
            self.samples.push(v);
        }
    }
    pub fn violation(&mut self, signature: impl Into<String>, what: impl Into<String>, replay: Value) {
        let signature = signature.into();
        // keep at most 3 witnesses per signature per shard
        if self.violations.iter().filter(|v| v.signature == signature).count() < 3 {
            self.violations.push(Violation { signature, what: what.into(), replay });
        } else {
            self.count(&format!("suppressed_repeat:{signature}"), 1);
        }
    }
    pub fn inconclusive(&mut self, why: impl Into<String>) {
        if self.inconclusive.len() < 20 {
            self.inconclusive.push(why.into());
        }
    }
    pub fn merge(&mut self, o: Acc) {
        self.evaluations += o.evaluations;
        self.nontrivial.extend(o.nontrivial);
        for (k, v) in o.counters {
            if k.starts_with("max_") {
                let e = self.counters.entry(k).or_insert(0);
                if v > *e {
                    *e = v;
                }
            } else {
                *self.counters.entry(k).or_insert(0) += v;
            }
        }
        for (k, v) in o.sets {
            self.sets.entry(k).or_default().extend(v);
        }
        for s in o.samples {
            if self.samples.len() < 5 {
                self.samples.push(s);
            }
        }
        self.violations.extend(o.violations);
        self.inconclusive.extend(o.inconclusive);
    }
}

pub struct Report {
    pub ctx: Ctx,
    pub start: Instant,
    pub acc: Acc,
    pub rule: String,
    pub assumptions: Vec<String>,
    pub extra: Map<String, Value>,
    /// minimum observation counts: (counter key, minimum)
    pub minima: Vec<(String, u64)>,
}

impl Report {
    pub fn new(ctx: &Ctx, rule: &str) -> Self {
        Report {
            ctx: ctx.clone(),
            start: Instant::now(),
            acc: Acc::new(),
            rule: rule.to_string(),
            assumptions: Vec::new(),
            extra: Map::new(),
            minima: Vec::new(),
        }
    }
    pub fn assume(&mut self, s: &str) {
        self.assumptions.push(s.to_string());
    }
    pub fn require(&mut self, counter: &str, min: u64) {
        self.minima.push((counter.to_string(), min));
    }

    /// Write evidence, print verdict lines, return the process exit code.
    pub fn finish(mut self) -> i32 {
        let known = load_known(&self.ctx.root);
        let prop = self.ctx.prop.clone();
        // minima => inconclusive
        for (k, min) in self.minima.clone() {
            let got = self.acc.counters.get(&k).copied().unwrap_or(0);
            if got < min {
                self.acc.inconclusive(format!("too-few-observations:{k}:{got}<{min}"));
            }
        }
        if self.acc.evaluations == 0 {
            self.acc.inconclusive("no-evaluations".to_string());
        }

        // classify violations
        let mut known_hits: BTreeMap<String, (u64, String)> = BTreeMap::new();
        let mut fresh: BTreeMap<String, Vec<Violation>> = BTreeMap::new();
        for v in self.acc.violations.clone() {
            let k = known.iter().find(|k| {
                k.property == prop
                    && k.status == "known"
                    && (k.signature == v.signature
                        || (k.signature.ends_with('*')
                            && v.signature.starts_with(k.signature.trim_end_matches('*'))))
            });
            match k {
                Some(k) => {
                    let e = known_hits.entry(k.signature.clone()).or_insert((0, k.what.clone()));
                    e.0 += 1;
                }
                None => fresh.entry(v.signature.clone()).or_default().push(v),
            }
        }

        // replay files for fresh violations
        let replay_dir = self.ctx.root.join("replays").join(&prop);
        let mut viol_lines = Vec::new();
        if !fresh.is_empty() {
            let _ = std::fs::create_dir_all(&replay_dir);
        }
        for (sig, vs) in &fresh {
            let v = &vs[0];
            let fname = format!(
                "{}-{}-{:016x}.json",
                self.ctx.tier.as_str(),
                self.ctx.seed,
                crate::rng::hash64(sig)
            );
            let path = replay_dir.join(fname);
            let body = json!({
                "property": prop,
                "signature": sig,
                "what": v.what,
                "seed": self.ctx.seed,
                "tier": self.ctx.tier.as_str(),
                "occurrences_in_run": vs.len(),
                "replay": v.replay,
            });
            let _ = std::fs::write(&path, serde_json::to_string_pretty(&body).unwrap());
            viol_lines.push((sig.clone(), v.what.clone(), path));
        }

        // evidence
        let wall = self.start.elapsed().as_secs_f64();
        let mut coverage = Map::new();
        coverage.insert("evaluations".into(), json!(self.acc.evaluations));
        coverage.insert("distinct_nontrivial".into(), json!(self.acc.nontrivial.len()));
        coverage.insert("rule".into(), json!(self.rule));
        coverage.insert("samples".into(), Value::Array(self.acc.samples.clone()));
        let mut observed = Map::new();
        for (k, v) in &self.acc.counters {
            if !k.starts_with("suppressed_repeat:") {
                observed.insert(k.clone(), json!(v));
            }
        }
        coverage.insert("observed".into(), Value::Object(observed));
        let mut distinct = Map::new();
        for (k, v) in &self.acc.sets {
            let mut items: Vec<&String> = v.iter().collect();
            items.sort();
            distinct.insert(
                k.clone(),
                json!({"count": v.len(), "first": items.iter().take(12).collect::<Vec<_>>()}),
            );
        }
        coverage.insert("distinct_observed".into(), Value::Object(distinct));
        coverage.insert(
            "known_findings_hit".into(),
            json!(known_hits.iter().map(|(s, (n, _))| json!({"signature": s, "occurrences": n})).collect::<Vec<_>>()),
        );
        coverage.insert(
            "new_violation_signatures".into(),
            json!(fresh.keys().collect::<Vec<_>>()),
        );
        coverage.insert("inconclusive".into(), json!(self.acc.inconclusive));
        coverage.insert(
            "harness_build".into(),
            json!(if self.ctx.checked_build { "checked (overflow-checks, debug-assertions)" } else { "release" }),
        );
        for (k, v) in self.extra.iter() {
            coverage.insert(k.clone(), v.clone());
        }
        let ev = json!({
            "property_id": prop,
            "tier": self.ctx.tier.as_str(),
            "seed": self.ctx.seed,
            "level": "exploration",
            "coverage": Value::Object(coverage),
            "assumptions": self.assumptions,
            "wall_s": (wall * 1000.0).round() / 1000.0,
            "violations": fresh.len(),
        });
        let ev_dir = self.ctx.root.join("evidence");
        let _ = std::fs::create_dir_all(&ev_dir);
        std::fs::write(ev_dir.join(format!("{prop}.json")), serde_json::to_string_pretty(&ev).unwrap())
            .expect("cannot write evidence file");

        // verdict lines
        for (sig, (n, what)) in &known_hits {
            println!("KNOWN-FINDING: property={prop} {what} [signature={sig} occurrences={n}]");
        }
        for (sig, what, path) in &viol_lines {
            println!("VIOLATION property={prop} replay={} signature={sig} :: {what}", path.display());
        }
        let status = if !viol_lines.is_empty() {
            1
        } else if !self.acc.inconclusive.is_empty() {
            for why in &self.acc.inconclusive {
                println!("INCONCLUSIVE property={prop} reason={why}");
            }
            2
        } else {
            0
        };
        println!(
            "SUMMARY property={prop} tier={} seed={} evaluations={} distinct_nontrivial={} new_violations={} known_hits={} wall_s={:.1} exit={status}",
            self.ctx.tier.as_str(),
            self.ctx.seed,
            self.acc.evaluations,
            self.acc.nontrivial.len(),
            viol_lines.len(),
            known_hits.len(),
            wall
        );
        status
    }
}

static SHARDED_CALLS: std::sync::atomic::AtomicUsize = std::sync::atomic::AtomicUsize::new(0);

/// Run `f(shard)` for every shard and merge the accumulators.
///
/// Each shard runs in its **own child process** of this executable (the library under test leaks
/// its reference-counted graphs, so a long workload must not live in one process). The parent
/// re-invokes itself with `--shard <call>:<shard>`; a child executes exactly that shard of that
/// `run_sharded` call and exits.
pub fn run_sharded<F>(ctx: &Ctx, f: F) -> Acc
where
    F: Fn(usize) -> Acc + Sync,
{
    let call = SHARDED_CALLS.fetch_add(1, std::sync::atomic::Ordering::SeqCst);
    if let Some((want_call, shard)) = ctx.shard {
        // ---- child
        if call < want_call {
            return Acc::new();
        }
        let acc = std::thread::scope(|s| {
            std::thread::Builder::new()
                .stack_size(256 << 20)
                .spawn_scoped(s, || f(shard))
                .expect("spawn")
                .join()
                .unwrap_or_else(|_| {
                    let mut a = Acc::new();
                    a.inconclusive("harness-thread-panicked");
                    a
                })
        });
        let out = ctx.acc_out.clone().expect("--acc-out");
        std::fs::write(&out, serde_json::to_string(&acc).expect("acc json")).expect("write acc");
        std::process::exit(0);
    }
    // ---- parent
    let jobs = ctx.jobs;
    let dir = ctx.root.join("work").join(format!("acc-{}-{}", std::process::id(), call));
    let _ = std::fs::create_dir_all(&dir);
    let mut total = Acc::new();
    std::thread::scope(|s| {
        let handles: Vec<_> = (0..jobs)
            .map(|i| {
                let dir = dir.clone();
                s.spawn(move || {
                    let out = dir.join(format!("{i}.json"));
                    let status = std::process::Command::new(&ctx.self_exe)
                        .arg("check")
                        .arg(&ctx.prop)
                        .args(["--tier", ctx.tier.as_str(), "--seed", &ctx.seed.to_string()])
                        .arg("--root")
                        .arg(&ctx.root)
                        .args(["--jobs", &jobs.to_string()])
                        .arg("--rva-checked")
                        .arg(&ctx.rva_checked)
                        .arg("--rva-release")
                        .arg(&ctx.rva_release)
                        .args(["--shard", &format!("{call}:{i}")])
                        .arg("--acc-out")
                        .arg(&out)
                        .stdout(std::process::Stdio::null())
                        .status();
                    let acc: Option<Acc> = std::fs::read_to_string(&out).ok().and_then(|t| serde_json::from_str(&t).ok());
                    (status.ok().and_then(|s| s.code()), acc)
                })
            })
            .collect();
        for h in handles {
            match h.join() {
                Ok((Some(0), Some(a))) => total.merge(a),
                Ok((code, _)) => total.inconclusive(format!("shard-process-failed:{code:?}")),
                Err(_) => total.inconclusive("shard-thread-panicked"),
            }
        }
    });
    let _ = std::fs::remove_dir_all(&dir);
    total
}
