//! The harness's own program representation. The analyzer only ever sees printed text;
//! the reference machine only ever sees this AST.

use serde::{Deserialize, Serialize};
use std::collections::HashMap;

pub type Reg = u8;

pub const ZERO: Reg = 0;
pub const RA: Reg = 1;
pub const SP: Reg = 2;
pub const A0: Reg = 10;
pub const A1: Reg = 11;
pub const A7: Reg = 17;

pub const ABI: [&str; 32] = [
    "zero", "ra", "sp", "gp", "tp", "t0", "t1", "t2", "s0", "s1", "a0", "a1", "a2", "a3", "a4",
    "a5", "a6", "a7", "s2", "s3", "s4", "s5", "s6", "s7", "s8", "s9", "s10", "s11", "t3", "t4",
    "t5", "t6",
];

pub const TEMPS: [Reg; 7] = [5, 6, 7, 28, 29, 30, 31];
pub const SAVED: [Reg; 12] = [8, 9, 18, 19, 20, 21, 22, 23, 24, 25, 26, 27];
pub const ARGS: [Reg; 8] = [10, 11, 12, 13, 14, 15, 16, 17];

pub fn is_temp(r: Reg) -> bool {
    TEMPS.contains(&r)
}
pub fn is_saved(r: Reg) -> bool {
    SAVED.contains(&r)
}
pub fn is_arg(r: Reg) -> bool {
    (10..=17).contains(&r)
}
pub fn is_caller_saved(r: Reg) -> bool {
    is_temp(r) || is_arg(r)
}

/// Parse a register name the way the RISC-V assembly manual defines them.
pub fn reg_from_name(s: &str) -> Option<Reg> {
    if let Some(i) = ABI.iter().position(|n| *n == s) {
        return Some(i as Reg);
    }
    if s == "fp" {
        return Some(8);
    }
    if let Some(n) = s.strip_prefix('x') {
        if let Ok(v) = n.parse::<u8>() {
            if v < 32 && (n == "0" || !n.starts_with('0')) {
                return Some(v);
            }
        }
    }
    None
}

#[derive(Clone, Copy, Debug, PartialEq, Eq, Hash, Serialize, Deserialize)]
pub enum AluOp {
    Add,
    Sub,
    And,
    Or,
    Xor,
    Sll,
    Srl,
    Sra,
    Slt,
    Sltu,
    Mul,
    Mulh,
    Mulhsu,
    Mulhu,
    Div,
    Divu,
    Rem,
    Remu,
}

pub const ALL_ALU: [AluOp; 18] = [
    AluOp::Add,
    AluOp::Sub,
    AluOp::And,
    AluOp::Or,
    AluOp::Xor,
    AluOp::Sll,
    AluOp::Srl,
    AluOp::Sra,
    AluOp::Slt,
    AluOp::Sltu,
    AluOp::Mul,
    AluOp::Mulh,
    AluOp::Mulhsu,
    AluOp::Mulhu,
    AluOp::Div,
    AluOp::Divu,
    AluOp::Rem,
    AluOp::Remu,
];

/// Operators that have an immediate form.
pub const IMM_ALU: [AluOp; 9] = [
    AluOp::Add,
    AluOp::And,
    AluOp::Or,
    AluOp::Xor,
    AluOp::Sll,
    AluOp::Srl,
    AluOp::Sra,
    AluOp::Slt,
    AluOp::Sltu,
];

impl AluOp {
    pub fn mnemonic(self) -> &'static str {
        match self {
            AluOp::Add => "add",
            AluOp::Sub => "sub",
            AluOp::And => "and",
            AluOp::Or => "or",
            AluOp::Xor => "xor",
            AluOp::Sll => "sll",
            AluOp::Srl => "srl",
            AluOp::Sra => "sra",
            AluOp::Slt => "slt",
            AluOp::Sltu => "sltu",
            AluOp::Mul => "mul",
            AluOp::Mulh => "mulh",
            AluOp::Mulhsu => "mulhsu",
            AluOp::Mulhu => "mulhu",
            AluOp::Div => "div",
            AluOp::Divu => "divu",
            AluOp::Rem => "rem",
            AluOp::Remu => "remu",
        }
    }
    pub fn imm_mnemonic(self) -> Option<&'static str> {
        Some(match self {
            AluOp::Add => "addi",
            AluOp::And => "andi",
            AluOp::Or => "ori",
            AluOp::Xor => "xori",
            AluOp::Sll => "slli",
            AluOp::Srl => "srli",
            AluOp::Sra => "srai",
            AluOp::Slt => "slti",
            AluOp::Sltu => "sltiu",
            _ => return None,
        })
    }
    /// RV32IM semantics (unprivileged spec, chapters 2.4 and M), on raw 32-bit values.
    pub fn eval(self, x: u32, y: u32) -> u32 {
        let xs = x as i32;
        let ys = y as i32;
        match self {
            AluOp::Add => x.wrapping_add(y),
            AluOp::Sub => x.wrapping_sub(y),
            AluOp::And => x & y,
            AluOp::Or => x | y,
            AluOp::Xor => x ^ y,
            AluOp::Sll => x << (y & 31),
            AluOp::Srl => x >> (y & 31),
            AluOp::Sra => (xs >> (y & 31)) as u32,
            AluOp::Slt => u32::from(xs < ys),
            AluOp::Sltu => u32::from(x < y),
            AluOp::Mul => x.wrapping_mul(y),
            AluOp::Mulh => ((i64::from(xs) * i64::from(ys)) >> 32) as u32,
            AluOp::Mulhsu => ((i128::from(xs) * i128::from(y)) >> 32) as u32,
            AluOp::Mulhu => ((u64::from(x) * u64::from(y)) >> 32) as u32,
            AluOp::Div => {
                if y == 0 {
                    u32::MAX
                } else if xs == i32::MIN && ys == -1 {
                    x
                } else {
                    (xs / ys) as u32
                }
            }
            AluOp::Divu => {
                if y == 0 {
                    u32::MAX
                } else {
                    x / y
                }
            }
            AluOp::Rem => {
                if y == 0 {
                    x
                } else if xs == i32::MIN && ys == -1 {
                    0
                } else {
                    (xs % ys) as u32
                }
            }
            AluOp::Remu => {
                if y == 0 {
                    x
                } else {
                    x % y
                }
            }
        }
    }
}

#[derive(Clone, Copy, Debug, PartialEq, Eq, Hash, Serialize, Deserialize)]
pub enum Cond {
    Eq,
    Ne,
    Lt,
    Ge,
    Ltu,
    Geu,
}

pub const ALL_COND: [Cond; 6] = [Cond::Eq, Cond::Ne, Cond::Lt, Cond::Ge, Cond::Ltu, Cond::Geu];

impl Cond {
    pub fn mnemonic(self) -> &'static str {
        match self {
            Cond::Eq => "beq",
            Cond::Ne => "bne",
            Cond::Lt => "blt",
            Cond::Ge => "bge",
            Cond::Ltu => "bltu",
            Cond::Geu => "bgeu",
        }
    }
    pub fn eval(self, x: u32, y: u32) -> bool {
        match self {
            Cond::Eq => x == y,
            Cond::Ne => x != y,
            Cond::Lt => (x as i32) < (y as i32),
            Cond::Ge => (x as i32) >= (y as i32),
            Cond::Ltu => x < y,
            Cond::Geu => x >= y,
        }
    }
}

#[derive(Clone, Copy, Debug, PartialEq, Eq, Hash, Serialize, Deserialize)]
pub enum LoadW {
    B,
    Bu,
    H,
    Hu,
    W,
}

impl LoadW {
    pub fn mnemonic(self) -> &'static str {
        match self {
            LoadW::B => "lb",
            LoadW::Bu => "lbu",
            LoadW::H => "lh",
            LoadW::Hu => "lhu",
            LoadW::W => "lw",
        }
    }
    pub fn bytes(self) -> u32 {
        match self {
            LoadW::B | LoadW::Bu => 1,
            LoadW::H | LoadW::Hu => 2,
            LoadW::W => 4,
        }
    }
}

#[derive(Clone, Copy, Debug, PartialEq, Eq, Hash, Serialize, Deserialize)]
pub enum StoreW {
    B,
    H,
    W,
}

impl StoreW {
    pub fn mnemonic(self) -> &'static str {
        match self {
            StoreW::B => "sb",
            StoreW::H => "sh",
            StoreW::W => "sw",
        }
    }
    pub fn bytes(self) -> u32 {
        match self {
            StoreW::B => 1,
            StoreW::H => 2,
            StoreW::W => 4,
        }
    }
}

#[derive(Clone, Debug, PartialEq, Eq, Hash, Serialize, Deserialize)]
pub enum Ins {
    Alu { op: AluOp, rd: Reg, rs1: Reg, rs2: Reg },
    AluI { op: AluOp, rd: Reg, rs1: Reg, imm: i32 },
    /// `imm` is the 20-bit operand as written (value placed in bits 31..12)
    Lui { rd: Reg, imm: i32 },
    La { rd: Reg, label: String },
    Load { w: LoadW, rd: Reg, off: i32, base: Reg },
    Store { w: StoreW, rs2: Reg, off: i32, base: Reg },
    Branch { c: Cond, rs1: Reg, rs2: Reg, label: String },
    Jal { rd: Reg, label: String },
    Jalr { rd: Reg, rs1: Reg, imm: i32 },
    Ecall,
    /// csrrw rd, csr, rs1
    Csrrw { rd: Reg, csr: u32, rs1: Reg },
    /// csrrs rd, csr, rs1
    Csrrs { rd: Reg, csr: u32, rs1: Reg },
    /// csrrwi rd, csr, imm
    Csrrwi { rd: Reg, csr: u32, imm: i32 },
}

impl Ins {
    pub fn li(rd: Reg, imm: i32) -> Ins {
        Ins::AluI { op: AluOp::Add, rd, rs1: ZERO, imm }
    }
    pub fn mv(rd: Reg, rs: Reg) -> Ins {
        Ins::AluI { op: AluOp::Add, rd, rs1: rs, imm: 0 }
    }
    pub fn addi(rd: Reg, rs1: Reg, imm: i32) -> Ins {
        Ins::AluI { op: AluOp::Add, rd, rs1, imm }
    }
    pub fn ret() -> Ins {
        Ins::Jalr { rd: ZERO, rs1: RA, imm: 0 }
    }
    pub fn call(label: &str) -> Ins {
        Ins::Jal { rd: RA, label: label.to_string() }
    }
    pub fn j(label: &str) -> Ins {
        Ins::Jal { rd: ZERO, label: label.to_string() }
    }
    pub fn lw(rd: Reg, off: i32, base: Reg) -> Ins {
        Ins::Load { w: LoadW::W, rd, off, base }
    }
    pub fn sw(rs2: Reg, off: i32, base: Reg) -> Ins {
        Ins::Store { w: StoreW::W, rs2, off, base }
    }
    pub fn is_ret(&self) -> bool {
        matches!(self, Ins::Jalr { rd: 0, rs1: 1, imm: 0 })
    }
    pub fn is_call(&self) -> bool {
        matches!(self, Ins::Jal { rd: 1, .. })
    }
    /// Architectural source registers (x0 included when written in the instruction).
    pub fn reads(&self) -> Vec<Reg> {
        match self {
            Ins::Alu { rs1, rs2, .. } => vec![*rs1, *rs2],
            Ins::AluI { rs1, .. } => vec![*rs1],
            Ins::Lui { .. } | Ins::La { .. } | Ins::Jal { .. } | Ins::Ecall | Ins::Csrrwi { .. } => vec![],
            Ins::Load { base, .. } => vec![*base],
            Ins::Store { rs2, base, .. } => vec![*base, *rs2],
            Ins::Branch { rs1, rs2, .. } => vec![*rs1, *rs2],
            Ins::Jalr { rs1, .. } => vec![*rs1],
            Ins::Csrrw { rs1, .. } | Ins::Csrrs { rs1, .. } => vec![*rs1],
        }
    }
    /// Architectural destination register, if any (x0 included when written).
    pub fn writes(&self) -> Option<Reg> {
        match self {
            Ins::Alu { rd, .. }
            | Ins::AluI { rd, .. }
            | Ins::Lui { rd, .. }
            | Ins::La { rd, .. }
            | Ins::Load { rd, .. }
            | Ins::Jal { rd, .. }
            | Ins::Jalr { rd, .. }
            | Ins::Csrrw { rd, .. }
            | Ins::Csrrs { rd, .. }
            | Ins::Csrrwi { rd, .. } => Some(*rd),
            Ins::Store { .. } | Ins::Branch { .. } | Ins::Ecall => None,
        }
    }
    pub fn target_label(&self) -> Option<&str> {
        match self {
            Ins::Branch { label, .. } | Ins::Jal { label, .. } | Ins::La { label, .. } => Some(label),
            _ => None,
        }
    }
    pub fn map_regs(&self, f: &dyn Fn(Reg) -> Reg) -> Ins {
        let mut i = self.clone();
        match &mut i {
            Ins::Alu { rd, rs1, rs2, .. } => {
                *rd = f(*rd);
                *rs1 = f(*rs1);
                *rs2 = f(*rs2);
            }
            Ins::AluI { rd, rs1, .. } => {
                *rd = f(*rd);
                *rs1 = f(*rs1);
            }
            Ins::Lui { rd, .. } | Ins::La { rd, .. } | Ins::Jal { rd, .. } | Ins::Csrrwi { rd, .. } => {
                *rd = f(*rd);
            }
            Ins::Load { rd, base, .. } => {
                *rd = f(*rd);
                *base = f(*base);
            }
            Ins::Store { rs2, base, .. } => {
                *rs2 = f(*rs2);
                *base = f(*base);
            }
            Ins::Branch { rs1, rs2, .. } => {
                *rs1 = f(*rs1);
                *rs2 = f(*rs2);
            }
            Ins::Jalr { rd, rs1, .. } | Ins::Csrrw { rd, rs1, .. } | Ins::Csrrs { rd, rs1, .. } => {
                *rd = f(*rd);
                *rs1 = f(*rs1);
            }
            Ins::Ecall => {}
        }
        i
    }
    pub fn map_label(&self, f: &dyn Fn(&str) -> String) -> Ins {
        let mut i = self.clone();
        match &mut i {
            Ins::Branch { label, .. } | Ins::Jal { label, .. } | Ins::La { label, .. } => {
                *label = f(label);
            }
            _ => {}
        }
        i
    }
}

#[derive(Clone, Debug, PartialEq, Eq, Serialize, Deserialize)]
pub enum Data {
    Word(Vec<i32>),
    Half(Vec<i32>),
    Byte(Vec<i32>),
    Space(u32),
    Asciz(String),
}

impl Data {
    pub fn size(&self) -> u32 {
        match self {
            Data::Word(v) => 4 * v.len() as u32,
            Data::Half(v) => 2 * v.len() as u32,
            Data::Byte(v) => v.len() as u32,
            Data::Space(n) => *n,
            Data::Asciz(s) => s.len() as u32 + 1,
        }
    }
    pub fn bytes(&self) -> Vec<u8> {
        match self {
            Data::Word(v) => v.iter().flat_map(|x| (*x as u32).to_le_bytes()).collect(),
            Data::Half(v) => v.iter().flat_map(|x| (*x as u16).to_le_bytes()).collect(),
            Data::Byte(v) => v.iter().map(|x| *x as u8).collect(),
            Data::Space(n) => vec![0; *n as usize],
            Data::Asciz(s) => {
                let mut b = s.as_bytes().to_vec();
                b.push(0);
                b
            }
        }
    }
}

#[derive(Clone, Debug, PartialEq, Eq, Serialize, Deserialize)]
pub enum Line {
    Label(String),
    Ins(Ins),
    /// `.data`
    SecData,
    /// `.text`
    SecText,
    Data(Data),
    Comment(String),
    Blank,
    /// Verbatim text (used by mutation / hostile workloads; ignored by the machine)
    Raw(String),
}

#[derive(Clone, Debug, PartialEq, Eq, Serialize, Deserialize, Default)]
pub struct Program {
    pub lines: Vec<Line>,
}

pub const TEXT_BASE: u32 = 0x0040_0000;
pub const DATA_BASE: u32 = 0x1001_0000;

/// Executable view of a program.
#[derive(Clone, Debug)]
pub struct Flat {
    pub ins: Vec<Ins>,
    /// index into `Program::lines` of each instruction
    pub line_of: Vec<usize>,
    /// code label -> instruction index (== ins.len() when the label is at the very end)
    pub code_labels: HashMap<String, usize>,
    /// data label -> address
    pub data_labels: HashMap<String, u32>,
    /// initial data image (address, byte)
    pub data_image: Vec<(u32, u8)>,
    /// instruction indexes that sit in the data segment
    pub in_data: Vec<bool>,
}

impl Flat {
    pub fn addr_of_label(&self, l: &str) -> Option<u32> {
        if let Some(i) = self.code_labels.get(l) {
            return Some(TEXT_BASE + 4 * (*i as u32));
        }
        self.data_labels.get(l).copied()
    }
}

impl Program {
    pub fn push(&mut self, i: Ins) {
        self.lines.push(Line::Ins(i));
    }
    pub fn label(&mut self, l: &str) {
        self.lines.push(Line::Label(l.to_string()));
    }
    pub fn n_ins(&self) -> usize {
        self.lines.iter().filter(|l| matches!(l, Line::Ins(_))).count()
    }
    pub fn instructions(&self) -> Vec<&Ins> {
        self.lines
            .iter()
            .filter_map(|l| if let Line::Ins(i) = l { Some(i) } else { None })
            .collect()
    }
    /// Index into `lines` of the k-th instruction.
    pub fn line_of_ins(&self, k: usize) -> usize {
        self.lines
            .iter()
            .enumerate()
            .filter(|(_, l)| matches!(l, Line::Ins(_)))
            .nth(k)
            .map(|(i, _)| i)
            .expect("instruction index")
    }
    pub fn flatten(&self) -> Flat {
        let mut ins = Vec::new();
        let mut line_of = Vec::new();
        let mut code_labels = HashMap::new();
        let mut data_labels = HashMap::new();
        let mut data_image = Vec::new();
        let mut in_data = Vec::new();
        let mut in_data_seg = false;
        let mut addr = DATA_BASE;
        // labels seen since the last instruction / datum
        let mut pending: Vec<String> = Vec::new();
        for (li, l) in self.lines.iter().enumerate() {
            match l {
                Line::SecData | Line::SecText => {
                    // a label directly in front of a segment switch stays in its own segment
                    for p in pending.drain(..) {
                        if in_data_seg {
                            data_labels.entry(p).or_insert(addr);
                        } else {
                            code_labels.entry(p).or_insert(ins.len());
                        }
                    }
                    in_data_seg = matches!(l, Line::SecData);
                }
                Line::Label(s) => pending.push(s.clone()),
                Line::Ins(i) => {
                    for p in pending.drain(..) {
                        code_labels.entry(p).or_insert(ins.len());
                    }
                    ins.push(i.clone());
                    line_of.push(li);
                    in_data.push(in_data_seg);
                }
                Line::Data(d) => {
                    // natural alignment like RARS: words on 4, halves on 2
                    let al = match d {
                        Data::Word(_) => 4,
                        Data::Half(_) => 2,
                        _ => 1,
                    };
                    addr = addr.div_ceil(al) * al;
                    for p in pending.drain(..) {
                        data_labels.entry(p).or_insert(addr);
                    }
                    for b in d.bytes() {
                        data_image.push((addr, b));
                        addr += 1;
                    }
                }
                Line::Comment(_) | Line::Blank | Line::Raw(_) => {}
            }
        }
        for p in pending.drain(..) {
            if in_data_seg {
                data_labels.entry(p).or_insert(addr);
            } else {
                code_labels.entry(p).or_insert(ins.len());
            }
        }
        Flat { ins, line_of, code_labels, data_labels, data_image, in_data }
    }
}
