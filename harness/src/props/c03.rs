//! C03 - the control-flow graph matches the program's real control flow.

use super::c01::workload;
use super::common::*;
use super::dynamic::Which;
use crate::gen::Profile;
use crate::graph::GraphView;
use crate::print::Style;
use crate::report::{run_sharded, Acc, Ctx, Report};
use crate::rng::Rng;
use serde_json::json;

/// Static legality of the finished graph.
pub fn static_checks(gv: &GraphView, text: &str, acc: &mut Acc) {
    let n = gv.nodes.len();
    for a in &gv.nodes {
        // (1) inverse relations
        for b in &a.nexts {
            acc.count("edges_checked", 1);
            if *b >= n || !gv.nodes[*b].prevs.contains(&a.idx) {
                acc.violation(
                    format!("C03|asym|next-without-prev|{}", a.kind),
                    format!("`{}` (line {}) has successor #{b} which does not list it as predecessor", a.render, a.line + 1),
                    json!({"program": text}),
                );
            }
        }
        for b in &a.prevs {
            if *b >= n || !gv.nodes[*b].nexts.contains(&a.idx) {
                acc.violation(
                    format!("C03|asym|prev-without-next|{}", a.kind),
                    format!("`{}` (line {}) has predecessor #{b} which does not list it as successor", a.render, a.line + 1),
                    json!({"program": text}),
                );
            }
        }
        // (2) legality of every edge
        let can_fall = !(a.is_return || (a.kind == "JumpLink" && a.calls_to.is_none()) || (a.kind == "JumpLinkR"));
        for b in &a.nexts {
            let bn = &gv.nodes[*b];
            let fall = *b == a.idx + 1 && can_fall;
            let target = a.jumps_to.as_ref().is_some_and(|l| bn.labels.contains(l));
            let merge = matches!(a.jumps_to.as_deref(), Some("__return__" | "<return>"))
                && a.funcs.iter().any(|f| gv.funcs[*f].exit == *b);
            if !(fall || target || merge) {
                acc.violation(
                    format!("C03|illegal-edge|{}->{}", a.kind, bn.kind),
                    format!(
                        "edge `{}` (line {}) -> `{}` (line {}) is neither a fall-through, a jump to the written label, nor a return merge",
                        a.render, a.line + 1, bn.render, bn.line + 1
                    ),
                    json!({"program": text}),
                );
            }
        }
        // (3) edges stop at exit ecalls
        if a.is_ecall && matches!(a.known_ecall, Some(10) | Some(93)) && !a.nexts.is_empty() {
            acc.violation(
                "C03|exit-has-next".to_string(),
                format!("exit ecall on line {} has successors", a.line + 1),
                json!({"program": text}),
            );
        }
    }
}

fn static_part(ctx: &Ctx, per_shard: usize) -> Acc {
    run_sharded(ctx, |shard| {
        let mut acc = Acc::new();
        for k in 0..per_shard {
            let mut rng = Rng::derive(ctx.seed, 3_500 + shard as u64, k as u64);
            let prof = if rng.chance(0.7) { Profile::wild_static() } else { Profile::conforming() };
            let mut c = make_case(&mut rng, &prof, None, Some(&Style::plain()));
            if k % 5 == 4 {
                // hand-written families: exit ecalls with an inherited number, shared tails
                let s = if rng.chance(0.7) { crate::shapes::exit_ecall_family(&mut rng) } else { crate::shapes::shared_tail_family(&mut rng) };
                acc.note("shapes", s.name);
                c.g.prog = s.prog;
                c.g.base = c.g.prog.clone();
                c.g.funcs.clear();
                c.printed = crate::print::print(&c.g.prog, &Style::plain(), &mut Rng::new(1));
            }
            acc.evaluations += 1;
            let Ok(a) = analyze(&c.printed.text) else {
                acc.count("analysis_panicked", 1);
                continue;
            };
            let Ok(cfg) = &a.cfg else { continue };
            let gv = GraphView::of(cfg);
            acc.count("static_programs", 1);
            static_checks(&gv, &c.printed.text, &mut acc);
        }
        acc
    })
}

pub fn run(ctx: &Ctx) -> i32 {
    let mut rep = Report::new(
        ctx,
        "static: over every finished graph, successor/predecessor sets are inverse (by node identity), every edge is a fall-through, \
         a jump to the label written in the instruction or a return merged into the function exit, exit ecalls have no successors; \
         dynamic: every control transfer executed by the reference machine inside one activation (fall-through, taken/untaken branch, jump, \
         return from a call to the instruction after it, continuation after a non-exit ecall) is an edge, and no executed instruction is reported unreachable. \
         distinct_nontrivial = distinct programs with >= 10 executed instructions and >= 1 checked transfer",
    );
    rep.assume("generated programs end every path in ret or an exit ecall and use no indirect jump other than ret (C03's premise)");
    let per_shard = ctx.tier.pick(120, 2500);
    let runs = ctx.tier.pick(4, 8);
    let acc = workload(ctx, Which::C03, 3_000, per_shard, runs);
    rep.acc.merge(acc);
    let acc = static_part(ctx, ctx.tier.pick(120, 2500));
    rep.acc.merge(acc);
    rep.require("transfers_checked", 10_000);
    rep.require("edges_checked", 10_000);
    rep.finish()
}
