//! C16 - every analysis failure is explained at a real place in the user's files.

use super::c10::split_into_files;
use super::common::*;
use crate::ast::*;
use crate::cli::{self, Scratch};
use crate::gen::{self, Profile};
use crate::print::{print, Style};
use crate::report::{run_sharded, Acc, Ctx, Report};
use crate::rng::{hash64, Rng};
use crate::rva::{self, guarded, MemReader};
use crate::shapes;
use serde_json::json;
use std::collections::BTreeMap;

fn slice(text: &str, a: usize, b: usize) -> String {
    text.chars().skip(a).take(b.saturating_sub(a) + 1).collect()
}

pub fn check_program(ctx: &Ctx, name: &str, p: &Program, split: bool, use_cli: bool, rng: &mut Rng, acc: &mut Acc) {
    let pr = print(p, &Style::plain(), &mut Rng::new(1));
    let files = if split { split_into_files(&pr.text, rng, 3) } else { vec![(FILE.to_string(), pr.text.clone())] };
    acc.evaluations += 1;
    let replay = json!({"shape": name, "files": files});
    let a = match guarded(|| rva::analyze_with(MemReader::new(&files), FILE)) {
        Ok(a) => a,
        Err(pi) => {
            acc.count(&format!("analysis_panicked:{}", pi.class()), 1);
            return;
        }
    };
    if !a.parse_errors.is_empty() {
        acc.count("parse_errors_excluded", 1);
        return;
    }
    acc.note("shapes", name);
    acc.nontrivial.insert(hash64(&format!("{files:?}")));
    let multi = if files.len() > 1 { "multi-file" } else { "single-file" };
    // ---- reference model of label hygiene: every definition and every use in the program text
    let mut defs: BTreeMap<String, usize> = BTreeMap::new();
    for l in &p.lines {
        if let Line::Label(x) = l {
            *defs.entry(x.clone()).or_insert(0) += 1;
        }
    }
    let dups: Vec<String> = defs.iter().filter(|(_, n)| **n >= 2).map(|(k, _)| k.clone()).collect();
    // (a load or store that names a label instead of an address - `lw a0, table` - is written as raw text)
    let raw_label_use = |r: &str| -> Option<String> {
        let toks: Vec<&str> = r.split(|c: char| c.is_whitespace() || c == ',').filter(|t| !t.is_empty()).collect();
        if toks.len() >= 3 && ["lw", "lh", "lb", "lhu", "lbu", "sw", "sh", "sb"].contains(&toks[0]) {
            let t = toks[2];
            let ident = t.chars().next().is_some_and(|c| c.is_alphabetic() || c == '_') && t.chars().all(|c| c.is_alphanumeric() || c == '_');
            // (the exact register spellings are no labels)
            if ident && !ABI.contains(&t) && !(t.starts_with('x') && t[1..].parse::<u8>().is_ok()) {
                return Some(t.to_string());
            }
        }
        None
    };
    let undefined: Vec<String> = p
        .lines
        .iter()
        .filter_map(|l| match l {
            Line::Ins(i) => i.target_label().map(str::to_string),
            Line::Raw(r) => raw_label_use(r),
            _ => None,
        })
        .filter(|t| !defs.contains_key(t))
        .collect();
    if !dups.is_empty() {
        acc.count("programs_with_a_duplicate_label", 1);
    }
    if !undefined.is_empty() {
        acc.count("programs_with_an_undefined_label", 1);
    }
    // (a label names the instruction that follows it; data, or the end of its segment or file, is none)
    let names_instruction = |name: &str| -> bool {
        p.lines.iter().enumerate().filter(|(_, l)| matches!(l, Line::Label(x) if x == name)).any(|(i, _)| {
            // the segment the label stands in (programs start in .text)
            let mut in_data = p.lines[..i].iter().rev().find_map(|l| match l {
                Line::SecData => Some(true),
                Line::SecText => Some(false),
                _ => None,
            }) == Some(true);
            for l in &p.lines[i + 1..] {
                match l {
                    Line::Ins(_) => return true,
                    Line::Raw(r) if !r.trim().is_empty() && !r.trim_start().starts_with('#') && !r.trim_start().starts_with('.') => return true,
                    Line::Data(_) => return false,
                    // (a directive that names the segment the program is already in changes nothing)
                    Line::SecData if in_data => {}
                    Line::SecText if !in_data => {}
                    Line::SecData | Line::SecText => {
                        in_data = !in_data;
                        return false;
                    }
                    _ => {}
                }
            }
            false
        })
    };
    let no_instruction: Vec<String> = p
        .lines
        .iter()
        .filter_map(|l| match l {
            Line::Ins(Ins::Branch { label, .. } | Ins::Jal { label, .. }) => Some(label.clone()),
            _ => None,
        })
        .filter(|t| defs.contains_key(t) && !names_instruction(t))
        .collect();
    if !no_instruction.is_empty() && dups.is_empty() && undefined.is_empty() {
        acc.count("programs_with_a_transfer_to_a_label_without_instruction", 1);
        if a.cfg.is_ok() {
            acc.violation(
                format!("C16|{name}|silent|transfer-to-label-without-instruction"),
                format!("{name}: `{}` is the target of a jump, branch or call but names no instruction (data, or the end of its segment, follows it); the analysis goes on without any error", no_instruction[0]),
                replay.clone(),
            );
        }
    }
    let label_fault = if !dups.is_empty() { Some(("duplicate-label", dups[0].clone())) } else if !undefined.is_empty() { Some(("undefined-label", undefined[0].clone())) } else { None };
    if let Some((what, label)) = &label_fault {
        let code = a.cfg.as_ref().err().map(|e| e.code.clone());
        let is_label_error = matches!(code.as_deref(), Some("cfg:LabelsNotDefined" | "cfg:DuplicateLabel"));
        if !is_label_error {
            acc.violation(
                format!("C16|{name}|silent|{what}"),
                format!("{name}: label `{label}` is {} but the analysis {}", if *what == "duplicate-label" { "defined more than once" } else { "used and never defined" }, match &code { None => "goes on without any error".to_string(), Some(c) => format!("stops with `{c}` instead") }),
                replay.clone(),
            );
        } else {
            acc.count("label_faults_reported", 1);
        }
    }
    match &a.cfg {
        Err(e) => {
            acc.count("analysis_failures_judged", 1);
            if e.code == "cfg:LabelWithoutInstruction" {
                // the label it names must really name no instruction
                if let Some(l) = defs.keys().find(|l| e.title.ends_with(&format!(": {l}")) || e.title.contains(&format!(": {l} "))) {
                    if names_instruction(l) {
                        acc.violation(
                            format!("C16|{name}|label-without-instruction|false"),
                            format!("{name}: the analysis stops with `{}`, but an instruction follows that label in its segment", e.title),
                            replay.clone(),
                        );
                    }
                }
            }
            acc.note("failure_kinds", e.code.clone());
            let generic = e.code == "cfg:UnexpectedError" || e.code == "cfg:AssertionError";
            if generic {
                acc.violation(
                    format!("C16|{name}|generic|{}", e.code),
                    format!("{name}: the analysis stops with the generic `{}` ({})", e.title, e.desc.chars().take(60).collect::<String>()),
                    replay.clone(),
                );
            }
            let file_text = files.iter().find(|(n, _)| *n == e.file).map(|(_, t)| t.clone());
            match &file_text {
                None => {
                    if !generic {
                        acc.violation(
                            format!("C16|{name}|no-file|{}", e.code),
                            format!("{name}: error `{}` is attached to no user file ({})", e.title, e.file),
                            replay.clone(),
                        );
                    }
                }
                Some(text) => {
                    let n = text.chars().count();
                    let s = e.span;
                    let ok = s.start.raw <= s.end.raw && s.end.raw < n && s.start.line == s.end.line;
                    if !ok {
                        acc.violation(
                            format!("C16|{name}|bad-range|{}", e.code),
                            format!("{name}: error `{}` has an empty or out-of-file range {:?}", e.title, s),
                            replay.clone(),
                        );
                    } else if e.code == "cfg:LabelsNotDefined" || e.code == "cfg:DuplicateLabel" {
                        let sl = slice(text, s.start.raw, s.end.raw);
                        let label = sl.trim_end_matches(':').to_string();
                        let is_ident = !label.is_empty() && label.chars().all(|c| c.is_alphanumeric() || c == '_');
                        let named = e.title.contains(&label);
                        // the label must really be undefined / duplicated in the program
                        let defs = p.lines.iter().filter(|l| matches!(l, Line::Label(x) if *x == label)).count();
                        let real = if e.code == "cfg:LabelsNotDefined" { defs == 0 } else { defs >= 2 };
                        if !(is_ident && named && real) {
                            acc.violation(
                                format!("C16|{name}|wrong-text|{}", e.code),
                                format!("{name}: error `{}` is located on `{sl}` ({} definitions of that label)", e.title, defs),
                                replay.clone(),
                            );
                        }
                    }
                }
            }
        }
        Ok(_) => {
            acc.count("analysis_succeeded", 1);
            if name.starts_with("must-fail:") {
                acc.violation(
                    format!("C16|{name}|silent|function-without-return"),
                    format!("{name}: every path of the called function ends in an exit ecall (the `ret` behind them is dead), yet the analysis goes on without 'Function without return'"),
                    replay.clone(),
                );
            }
        }
    }
    // ---- default CLI output must show the failure
    if use_cli && a.cfg.is_err() && !ctx.rva_checked.as_os_str().is_empty() {
        let sc = Scratch::new(&ctx.root, "c16");
        for (n, t) in &files {
            sc.write(n, t);
        }
        let run = cli::rva(&ctx.rva_checked, &["lint", "--compact", "--no-color", FILE], &sc.dir);
        acc.count("cli_runs", 1);
        if run.timed_out || run.code != Some(0) {
            acc.count("cli_runs_abnormal", 1);
            return;
        }
        let e = a.cfg.as_ref().err().unwrap();
        let shows_error = run.stdout.lines().any(|l| l.starts_with("Error: ") && l.contains(&e.title) && !l.contains("<unknown file>"));
        let counts_elsewhere = run.stdout.contains("found in other files");
        if !(shows_error || (counts_elsewhere && e.file != FILE && e.file != "<nil>")) {
            acc.violation(
                format!("C16|{name}|hidden|{}|{multi}", e.code),
                format!("{name}: the library reports `{}` but the default CLI output is {:?}", e.title, run.stdout.lines().take(3).collect::<Vec<_>>()),
                replay,
            );
        }
    }
}

pub fn run(ctx: &Ctx) -> i32 {
    let mut rep = Report::new(
        ctx,
        "programs that parse without errors but may be impossible to analyse: undefined labels in jumps, branches, calls, la and lw-label (one or several), duplicate labels, \
         labels at the end of the file or only in front of directives, functions without a return (infinite loop, exit inside, falling off the end), returns outside functions, \
         calls into data labels, label-only and data-only files, the same inside included files, and generated programs with labels made undefined/duplicate at random. \
         An error must be specific (not Unexpected/Assertion), located in a user file with a non-empty in-file range; label errors must sit on and name an offending label; the \
         default CLI output must show it. distinct_nontrivial = distinct file sets judged",
    );
    rep.assume("when several labels are undefined the tool may name any one of them as the location");
    let per_shard = ctx.tier.pick(40, 300);
    let acc = run_sharded(ctx, |shard| {
        let mut acc = Acc::new();
        for k in 0..per_shard {
            let mut rng = Rng::derive(ctx.seed, 16_000 + shard as u64, k as u64);
            for s in shapes::failure_shapes(&mut rng) {
                let split = rng.chance(0.3);
                check_program(ctx, s.name, &s.prog, split, k == 0 && shard < 4, &mut rng, &mut acc);
            }
            // generated programs with label hygiene broken at random
            for _ in 0..4 {
                let mut g = gen::generate(&mut rng, &Profile::conforming(), None);
                let kind = rng.below(4);
                let labels: Vec<usize> = g.prog.lines.iter().enumerate().filter(|(_, l)| matches!(l, Line::Label(_))).map(|(i, _)| i).collect();
                let name = match kind {
                    0 => {
                        // remove a label definition that is used
                        if let Some(i) = labels.get(rng.below(labels.len().max(1))) {
                            g.prog.lines[*i] = Line::Blank;
                        }
                        "generated:label-definition-removed"
                    }
                    1 => {
                        // duplicate a label definition
                        if let Some(i) = labels.get(rng.below(labels.len().max(1))) {
                            let l = g.prog.lines[*i].clone();
                            let at = rng.below(g.prog.lines.len());
                            g.prog.lines.insert(at, l);
                        }
                        "generated:label-duplicated"
                    }
                    2 => {
                        // drop every ret of one function
                        let mut seen_fn = false;
                        let mut dropped = false;
                        for l in g.prog.lines.iter_mut() {
                            if let Line::Label(s) = l {
                                seen_fn = s.starts_with("fn_0");
                            }
                            if seen_fn {
                                if let Line::Ins(i) = l {
                                    if i.is_ret() {
                                        *l = Line::Ins(Ins::j("fn_0"));
                                        dropped = true;
                                    }
                                }
                            }
                        }
                        let _ = dropped;
                        "generated:function-without-return"
                    }
                    _ => "generated:unchanged",
                };
                check_program(ctx, name, &g.prog, rng.chance(0.3), false, &mut rng, &mut acc);
            }
        }
        acc
    });
    rep.acc.merge(acc);
    rep.require("analysis_failures_judged", 50);
    rep.acc.sample(json!({"shape": "function-infinite-loop", "sketch": "main: li a0,K; jal spin; li a7,10; ecall | spin: addi a0,a0,1; j spin"}));
    rep.finish()
}
