//! One monitor per property.

use crate::report::Ctx;

pub mod c08;
pub mod c17;

pub fn run(ctx: &Ctx) -> i32 {
    match ctx.prop.as_str() {
        "C08" => c08::run(ctx),
        "C17" => c17::run(ctx),
        other => {
            eprintln!("rvmon: no monitor for property {other}");
            2
        }
    }
}
