//! One monitor per property.

use crate::report::Ctx;

pub mod c01;
pub mod c02;
pub mod c03;
pub mod c04;
pub mod c05;
pub mod c06;
pub mod c07;
pub mod c08;
pub mod c09;
pub mod c10;
pub mod c11;
pub mod c12;
pub mod c13;
pub mod c14;
pub mod c18;
pub mod c19;
pub mod common;
pub mod dynamic;
pub mod c15;
pub mod c16;
pub mod c17;

/// Show a stored witness and what the current tree says about the stored input
/// (informational: prints the diagnostics, does not re-judge).
pub fn replay(ctx: &Ctx, path: &std::path::Path) -> i32 {
    let Ok(text) = std::fs::read_to_string(path) else {
        eprintln!("rvmon: cannot read {}", path.display());
        return 2;
    };
    let Ok(v) = serde_json::from_str::<serde_json::Value>(&text) else {
        eprintln!("rvmon: {} is not JSON", path.display());
        return 2;
    };
    println!("REPLAY property={} signature={}", v["property"].as_str().unwrap_or(&ctx.prop), v["signature"].as_str().unwrap_or(""));
    println!("what: {}", v["what"].as_str().unwrap_or(""));
    let r = &v["replay"];
    let show = |name: &str, files: Vec<(String, String)>| {
        println!("--- linting stored `{name}` on the current tree");
        match crate::rva::guarded(|| crate::rva::analyze_files(&files, &files[0].0)) {
            Ok(a) => {
                for d in a.all_diags() {
                    println!("    {}", common::diag_brief(&d));
                }
                println!("    ({} diagnostics)", a.all_diags().len());
            }
            Err(p) => println!("    PANIC at {}: {}", p.site(), p.msg),
        }
    };
    if let Some(obj) = r.as_object() {
        for (k, val) in obj {
            if let Some(s) = val.as_str() {
                if s.contains('\n') || ["program", "file", "input", "text", "base", "rewritten", "original", "renamed", "a", "b"].contains(&k.as_str()) {
                    show(k, vec![("main.s".to_string(), s.to_string())]);
                }
            } else if k == "files" {
                if let Some(arr) = val.as_array() {
                    let files: Vec<(String, String)> = arr
                        .iter()
                        .filter_map(|p| Some((p.get(0)?.as_str()?.to_string(), p.get(1)?.as_str()?.to_string())))
                        .collect();
                    if !files.is_empty() {
                        show("files", files);
                    }
                }
            }
        }
    }
    0
}

pub fn run(ctx: &Ctx) -> i32 {
    if let Some(p) = &ctx.replay {
        return replay(ctx, p);
    }
    match ctx.prop.as_str() {
        "C01" => c01::run(ctx),
        "C02" => c02::run(ctx),
        "C03" => c03::run(ctx),
        "C04" => c04::run(ctx),
        "C05" => c05::run(ctx),
        "C06" => c06::run(ctx),
        "C07" => c07::run(ctx),
        "C08" => c08::run(ctx),
        "C09" => c09::run(ctx),
        "C10" => c10::run(ctx),
        "C11" => c11::run(ctx),
        "C12" => c12::run(ctx),
        "C13" => c13::run(ctx),
        "C14" => c14::run(ctx),
        "C15" => c15::run(ctx),
        "C16" => c16::run(ctx),
        "C17" => c17::run(ctx),
        "C18" => c18::run(ctx),
        "C19" => c19::run(ctx),
        other => {
            eprintln!("rvmon: no monitor for property {other}");
            2
        }
    }
}
