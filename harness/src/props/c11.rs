//! C11 - functions are exactly the call targets and their bodies are what they reach.

use super::common::*;
use crate::ast::*;
use crate::gen::{self, Inject, Profile};
use crate::graph::GraphView;
use crate::print::{print, Printed, Style};
use crate::report::{run_sharded, Acc, Ctx, Report};
use crate::rng::{hash64, Rng};
use crate::shapes;
use serde_json::json;
use std::collections::{BTreeSet, VecDeque};

/// Printed line of the first instruction at or after the definition of each label.
fn label_entry_lines(p: &Program, pr: &Printed) -> std::collections::HashMap<String, usize> {
    let mut m = std::collections::HashMap::new();
    for (i, l) in p.lines.iter().enumerate() {
        if let Line::Label(name) = l {
            for j in i + 1..p.lines.len() {
                let is_ins = match &p.lines[j] {
                    Line::Ins(_) => true,
                    Line::Raw(r) => !r.trim().is_empty() && !r.trim_start().starts_with('#') && !r.trim_start().starts_with('.'),
                    _ => false,
                };
                if is_ins {
                    m.insert(name.clone(), pr.line_of_src[j]);
                    break;
                }
                // a label names what follows it: data, or the end of its segment, are no instruction
                // (a directive that names the segment the program is already in changes nothing)
                let in_data = p.lines[..j].iter().rev().find_map(|l| match l {
                    Line::SecData => Some(true),
                    Line::SecText => Some(false),
                    _ => None,
                }) == Some(true);
                let ends = match &p.lines[j] {
                    Line::Data(_) => true,
                    Line::SecData => !in_data,
                    Line::SecText => in_data,
                    _ => false,
                };
                if ends {
                    break;
                }
            }
        }
    }
    m
}

fn call_targets(p: &Program) -> BTreeSet<String> {
    let mut t = BTreeSet::new();
    let ins: Vec<&Ins> = p.instructions();
    for (k, i) in ins.iter().enumerate() {
        if let Ins::Jal { rd: 1, label } = i {
            t.insert(label.clone());
        }
        // interrupt vector installation: la r, L ... csrrw x, utvec, r
        if let Ins::Csrrw { csr: 5, rs1, .. } = i {
            for prev in ins[..k].iter().rev() {
                if prev.writes() == Some(*rs1) {
                    if let Ins::La { label, .. } = prev {
                        t.insert(label.clone());
                    }
                    break;
                }
            }
        }
    }
    t
}

pub fn check_program(name: &str, p: &Program, acc: &mut Acc) {
    let pr = print(p, &Style::plain(), &mut Rng::new(1));
    acc.evaluations += 1;
    let text = pr.text.clone();
    let replay = json!({"shape": name, "program": text});
    let a = match analyze(&text) {
        Ok(a) => a,
        Err(pi) => {
            acc.count(&format!("analysis_panicked:{}", pi.class()), 1);
            return;
        }
    };
    let cfg = match &a.cfg {
        Ok(cfg) => cfg,
        Err(e) => {
            // Shapes that are well-formed by construction (every called label has a return it reaches, every
            // label is defined once) must be analysed: a refusal hides all their functions at once
            let well_formed = name == "trap-handler-family" || name == "shared-tail" || name == "shared-tail-family" || name == "generated:conforming" || name.starts_with("wf:");
            if well_formed && a.parse_errors.is_empty() {
                acc.violation(
                    format!("C11|refused|{}|{name}", e.code),
                    format!("a well-formed program ({name}) is refused with `{}`: none of its functions is analysed", e.title),
                    json!({"shape": name, "program": pr.text}),
                );
            } else {
                acc.count("cfg_error_excluded", 1);
            }
            return;
        }
    };
    if !a.parse_errors.is_empty() {
        acc.count("parse_errors_excluded", 1);
        return;
    }
    let gv = GraphView::of(cfg);
    acc.count("graphs_checked", 1);
    acc.count("functions_checked", gv.funcs.len() as u64);
    acc.note("shapes", name);
    // ---- (1) functions == call targets (by entry address)
    let entry_line = label_entry_lines(p, &pr);
    let want: BTreeSet<usize> = call_targets(p).iter().filter_map(|l| entry_line.get(l).copied()).collect();
    let got: BTreeSet<usize> = gv.funcs.iter().map(|f| gv.nodes[f.entry].line).collect();
    if want != got {
        let extra: Vec<_> = got.difference(&want).collect();
        let missing: Vec<_> = want.difference(&got).collect();
        acc.violation(
            format!("C11|targets|{}|{name}", if !missing.is_empty() { "missing" } else { "extra" }),
            format!("function entries at lines {got:?}, call targets at lines {want:?} (missing {missing:?}, extra {extra:?}; 0-based)"),
            replay.clone(),
        );
    }
    // ---- (1b) the names of a function are the labels that stand on its first instruction
    for f in &gv.funcs {
        let line = gv.nodes[f.entry].line;
        let names: BTreeSet<String> = entry_line.iter().filter(|(_, l)| **l == line).map(|(n, _)| n.clone()).collect();
        if f.labels != names {
            let foreign: Vec<&String> = f.labels.difference(&names).collect();
            acc.violation(
                format!("C11|names|{}|{name}", if foreign.is_empty() { "missing" } else { "foreign" }),
                format!("function entered at line {}: the tool names it {:?}, the labels on that instruction are {:?}", line + 1, f.labels, names),
                replay.clone(),
            );
        }
    }
    // every label of a call target maps to the function of its entry
    for (fi, f) in gv.funcs.iter().enumerate() {
        // does this function share instructions with another one?
        let ov = if gv.funcs.iter().enumerate().any(|(gi, g)| gi != fi && g.nodes.intersection(&f.nodes).next().is_some()) { "overlapping" } else { "disjoint" };
        // The function's exit was turned into a jump by another (overlapping) function that was
        // marked later: its node list, exit and merged returns are all stale then (one root cause).
        if !gv.nodes[f.exit].is_return && ov == "overlapping" {
            acc.violation(
                "C11|exit|rewritten-by-overlapping-function".to_string(),
                format!("function {:?}: its exit (line {}) was rewritten into a jump by another function that shares it, so the function no longer has a return it reaches as exit", f.labels, gv.nodes[f.exit].line + 1),
                replay.clone(),
            );
            continue;
        }
        // ---- (2) members == reachable set
        let mut reach = BTreeSet::new();
        let mut q = VecDeque::from([f.entry]);
        while let Some(n) = q.pop_front() {
            if reach.insert(n) {
                for s in &gv.nodes[n].nexts {
                    q.push_back(*s);
                }
            }
        }
        if reach != f.nodes {
            let dir = if f.nodes.difference(&reach).next().is_some() { "too-many" } else { "too-few" };
            acc.violation(
                format!("C11|members|{dir}|{ov}|{name}"),
                format!("function {:?}: attributed nodes {:?}, reachable from its entry {:?}", f.labels, f.nodes, reach),
                replay.clone(),
            );
        }
        // ---- (4) exit
        let ex = &gv.nodes[f.exit];
        if !reach.contains(&f.exit) || !ex.is_return {
            acc.violation(
                format!("C11|exit|not-a-reached-return|{ov}|{name}"),
                format!("function {:?}: exit `{}` (line {}) is not a return it reaches", f.labels, ex.render, ex.line + 1),
                replay.clone(),
            );
        }
        for n in &reach {
            let nd = &gv.nodes[*n];
            let other_return = *n != f.exit && (nd.is_return || matches!(nd.jumps_to.as_deref(), Some("__return__" | "<return>")));
            if other_return && !nd.nexts.contains(&f.exit) {
                // a merged return may lead to the exit of *another* function that shares it;
                // it must at least lead to an exit of one of its owners
                let leads_to_owner_exit = nd.funcs.iter().any(|g| nd.nexts.contains(&gv.funcs[*g].exit));
                if !leads_to_owner_exit || nd.is_return {
                    acc.violation(
                        format!("C11|exit|return-not-merged|{ov}|{name}"),
                        format!("function {:?}: return on line {} does not lead to the function's exit", f.labels, nd.line + 1),
                        replay.clone(),
                    );
                }
            }
        }
    }
    // ---- (3) owners consistent
    let mut shared = false;
    for nd in &gv.nodes {
        let owners: BTreeSet<usize> = gv.funcs.iter().enumerate().filter(|(_, f)| f.nodes.contains(&nd.idx)).map(|(i, _)| i).collect();
        if owners != nd.funcs {
            acc.violation(
                format!("C11|owners|{name}"),
                format!("`{}` (line {}): owning functions {:?}, but it is in the node lists of {:?}", nd.render, nd.line + 1, nd.funcs, owners),
                replay.clone(),
            );
        }
        if owners.len() > 1 {
            shared = true;
        }
    }
    // ---- (5) sharing reported exactly when it exists: every maximal run of consecutive nodes
    // with the same set of two or more owners is announced at its first node (on one of its
    // labels, which sit between the previous node and it, or on the node itself)
    let overlap_lines: BTreeSet<usize> = a.lints.iter().filter(|d| d.code == "node-in-many-functions").map(|d| d.span.start.line).collect();
    let mut announced: BTreeSet<usize> = BTreeSet::new();
    let mut prev_owners: BTreeSet<usize> = BTreeSet::new();
    let mut prev_line: i64 = -1;
    for nd in &gv.nodes {
        let owners = nd.funcs.clone();
        if owners.len() > 1 && owners != prev_owners {
            acc.count("shared_regions", 1);
            let lo = (prev_line + 1) as usize;
            let hit: Vec<usize> = overlap_lines.iter().copied().filter(|l| *l >= lo && *l <= nd.line).collect();
            if hit.is_empty() {
                acc.violation(
                    format!("C11|overlap-missing|region|{name}"),
                    format!("the shared region starting at `{}` (line {}), owned by {} functions, is not reported", nd.render, nd.line + 1, owners.len()),
                    replay.clone(),
                );
            }
            announced.extend(hit);
        }
        if !nd.is_func_entry && !nd.is_program_entry {
            prev_line = nd.line as i64;
        }
        prev_owners = owners;
    }
    acc.count(if shared { "programs_with_shared_nodes" } else { "programs_without_shared_nodes" }, 1);
    // a report anywhere on a shared node is justified (entries inside a shared region are
    // reported too); spurious means: on a node that has a single owner or none
    let mut justified: BTreeSet<usize> = BTreeSet::new();
    let mut prev_line: i64 = -1;
    for nd in &gv.nodes {
        if nd.funcs.len() > 1 {
            for l in &overlap_lines {
                if (*l as i64) > prev_line && *l <= nd.line {
                    justified.insert(*l);
                }
            }
        }
        if !nd.is_func_entry && !nd.is_program_entry {
            prev_line = nd.line as i64;
        }
    }
    for l in overlap_lines.difference(&justified) {
        acc.violation(
            format!("C11|overlap-spurious|{name}"),
            format!("`node-in-many-functions` on line {} is not on an instruction that has two owners", l + 1),
            replay.clone(),
        );
    }
    acc.nontrivial.insert(hash64(&text));
}

pub fn run(ctx: &Ctx) -> i32 {
    let mut rep = Report::new(
        ctx,
        "hand-written parametrised shapes (several labels on one entry, interleaved bodies, shared tails, fall-through entry, mutual recursion, functions called only \
         from dead code, multiple returns, interrupt-handler installation, branch back to the entry) and generated programs (wild / conforming / with a planted jump or \
         fall-through into a function); reference model from the harness AST: call targets = labels named by jal-with-ra/call or installed into utvec; Reach(f) = BFS over \
         successor edges from the entry. Checked: function entries == call targets, node lists == reachable sets, owner lists consistent, one reached return as exit with every \
         other return merged into it, sharing reported exactly when it exists. distinct_nontrivial = distinct programs whose graph was checked",
    );
    rep.assume("programs whose analysis fails (function without reachable return, undefined label) are C16's subject and are excluded here");
    let per_shard = ctx.tier.pick(150, 1500);
    let acc = run_sharded(ctx, |shard| {
        let mut acc = Acc::new();
        for k in 0..per_shard {
            let mut rng = Rng::derive(ctx.seed, 11_000 + shard as u64, k as u64);
            if k % 3 == 0 {
                for s in shapes::call_graph_shapes(&mut rng) {
                    check_program(s.name, &s.prog, &mut acc);
                }
                for _ in 0..3 {
                    let s = shapes::shared_tail_family(&mut rng);
                    check_program(s.name, &s.prog, &mut acc);
                }
                let s = shapes::trap_handler_family(&mut rng);
                check_program(s.name, &s.prog, &mut acc);
            } else {
                let (prof, inject, name) = match rng.below(6) {
                    0 => (Profile::conforming(), Some(Inject::JumpToFunction), "generated:jump-into-function"),
                    1 => (Profile::conforming(), Some(Inject::FallThrough), "generated:fall-through"),
                    2 => (Profile::conforming(), Some(Inject::FirstIsFunction), "generated:first-line-function"),
                    3 => (Profile::conforming(), None, "generated:conforming"),
                    4 => (Profile::wild_static(), None, "generated:wild-branches-into-functions"),
                    _ => (Profile::wild(), None, "generated:wild"),
                };
                let g = gen::generate(&mut rng, &prof, inject);
                check_program(name, &g.prog, &mut acc);
            }
        }
        acc
    });
    rep.acc.merge(acc);
    rep.require("graphs_checked", 200);
    rep.require("programs_with_shared_nodes", 10);
    rep.acc.sample(json!({"shape": "shared-tail", "sketch": "f: addi a0,a0,1 ; j tail | g: addi a0,a0,2 | tail: addi a0,a0,3 ; ret"}));
    rep.finish()
}
