//! C07 - no source line is silently dropped; a bad line affects only itself.

use super::common::*;
use crate::gen::{self, Profile};
use crate::print::{print, Style};
use crate::report::{run_sharded, Acc, Ctx, Report};
use crate::rng::{hash64, Rng};
use crate::rva::{self, guarded, MemReader};
use riscv_analysis::parser::{ParseError, ParserNode};
use riscv_analysis::passes::DiagnosticLocation;
use serde_json::json;
use std::collections::BTreeMap;

#[derive(Clone, Copy, Debug, PartialEq, Eq)]
pub enum Defect {
    WrongOperandType,
    MissingLastOperand,
    ExtraOperand,
    UnknownMnemonic,
    UnknownDirective,
    StrayPlus,
    StraySemicolon,
    StrayAt,
    StrayDollar,
    StrayColon,
    NonAscii,
    LoneCr,
    UnterminatedString,
    UnterminatedChar,
    TextAfterString,
    BareDirective,
    TruncatedStatement,
    DataListStray,
    LabelAsOperand,
    LoneDot,
    UnterminatedMacro,
}

pub const DEFECTS: [Defect; 21] = [
    Defect::WrongOperandType,
    Defect::MissingLastOperand,
    Defect::ExtraOperand,
    Defect::UnknownMnemonic,
    Defect::UnknownDirective,
    Defect::StrayPlus,
    Defect::StraySemicolon,
    Defect::StrayAt,
    Defect::StrayDollar,
    Defect::StrayColon,
    Defect::NonAscii,
    Defect::LoneCr,
    Defect::UnterminatedString,
    Defect::UnterminatedChar,
    Defect::TextAfterString,
    Defect::BareDirective,
    Defect::TruncatedStatement,
    Defect::DataListStray,
    Defect::LabelAsOperand,
    Defect::LoneDot,
    Defect::UnterminatedMacro,
];

impl Defect {
    pub fn name(self) -> &'static str {
        match self {
            Defect::WrongOperandType => "wrong-operand-type",
            Defect::MissingLastOperand => "missing-last-operand",
            Defect::ExtraOperand => "extra-operand",
            Defect::UnknownMnemonic => "unknown-mnemonic",
            Defect::UnknownDirective => "unknown-directive",
            Defect::StrayPlus => "stray-plus",
            Defect::StraySemicolon => "stray-semicolon",
            Defect::StrayAt => "stray-at",
            Defect::StrayDollar => "stray-dollar",
            Defect::StrayColon => "stray-colon",
            Defect::NonAscii => "non-ascii-letter",
            Defect::LoneCr => "lone-carriage-return",
            Defect::UnterminatedString => "unterminated-string",
            Defect::UnterminatedChar => "unterminated-char",
            Defect::TextAfterString => "text-after-closing-quote",
            Defect::BareDirective => "directive-without-operands",
            Defect::TruncatedStatement => "statement-cut-after-a-token",
            Defect::DataListStray => "stray-token-in-a-data-list",
            Defect::LabelAsOperand => "label-definition-as-operand",
            Defect::LoneDot => "dot-that-starts-no-directive",
            Defect::UnterminatedMacro => "macro-that-is-never-closed",
        }
    }
    /// Does the malformed line certainly contain something that is no token of the language (so that
    /// silence about it means that text was dropped)?
    pub fn must_error(self) -> bool {
        matches!(self, Defect::StrayAt | Defect::StrayDollar | Defect::NonAscii | Defect::UnterminatedString | Defect::UnterminatedChar | Defect::DataListStray | Defect::LoneDot | Defect::UnterminatedMacro)
    }
    /// The malformed replacement for an instruction line `orig` (already trimmed of comments).
    pub fn apply(self, orig: &str, rng: &mut Rng) -> String {
        let indent: String = orig.chars().take_while(|c| c.is_whitespace()).collect();
        let body = orig.trim();
        let (mn, ops) = match body.split_once(' ') {
            Some((m, o)) => (m, o.to_string()),
            None => (body, String::new()),
        };
        match self {
            Defect::WrongOperandType => format!("{indent}add 5, 6, 7"),
            Defect::MissingLastOperand => format!("{indent}add t0, t1"),
            Defect::ExtraOperand => {
                if ops.is_empty() {
                    format!("{indent}{mn} t0")
                } else {
                    format!("{indent}{mn} {ops}, t0")
                }
            }
            Defect::UnknownMnemonic => format!("{indent}frobnicate {ops}"),
            Defect::UnknownDirective => format!("{indent}.frobnicate 3"),
            Defect::StrayPlus => {
                if rng.chance(0.5) {
                    format!("{indent}addi t0, t0, 1 + 2")
                } else {
                    format!("{indent}+")
                }
            }
            Defect::StraySemicolon => format!("{indent}addi t0, t0, 1; addi t1, t1, 1"),
            Defect::StrayAt => format!("{indent}addi t0, t0, @1"),
            Defect::StrayDollar => format!("{indent}addi $t0, t0, 1"),
            Defect::StrayColon => format!("{indent}: addi t0, t0, 1"),
            Defect::NonAscii => {
                if rng.chance(0.5) {
                    format!("{indent}add\u{e9} t0, t0, t1")
                } else {
                    format!("{indent}addi t0, t0, \u{ff11}")
                }
            }
            Defect::LoneCr => format!("{orig}\r"),
            Defect::UnterminatedString => format!("{indent}.asciz \"never closed"),
            Defect::UnterminatedChar => format!("{indent}li t0, 'a"),
            Defect::TextAfterString => format!("{indent}.asciz \"abc\"xyz"),
            Defect::BareDirective => format!("{indent}{}", rng.pick(&[".word", ".byte", ".half", ".asciz", ".string", ".space", ".align", ".globl", ".include", ".eqv", ".dword", ".float"])),
            Defect::TruncatedStatement => {
                let statement = *rng.pick(&["addi t0, t1, 5", "lw a0, 8(sp)", "beq a0, a1, main", "jal ra, main", ".word 1, 2, 3", ".asciz \"end\"", "sw t0, 4(sp)", "li t3, 77", "csrrw t0, uscratch, t1", "la t0, main", "jalr ra, 0(t0)"]);
                let toks: Vec<&str> = statement.split(' ').collect();
                let cut = 1 + rng.below(toks.len() - 1);
                let mut t = toks[..cut].join(" ");
                if rng.chance(0.3) {
                    // also cut inside the last token kept (an open parenthesis, half a number)
                    let cs: Vec<char> = t.chars().collect();
                    t = cs[..cs.len() - rng.below(2.min(cs.len() - 1) + 1)].iter().collect();
                }
                format!("{indent}{t}")
            }
            Defect::LabelAsOperand => format!("{indent}addi t0, t1, oops:"),
            Defect::LoneDot => format!("{indent}{}", rng.pick(&[".", ". . .", "addi t0, t0, .", ". addi t0, t0, 1", ".. ..", ".word 1, . , 2"])),
            Defect::UnterminatedMacro => format!("{indent}{}", rng.pick(&[".macro", ".macro swap", ".macro swap (%a, %b)"])),
            Defect::DataListStray => {
                let dir = *rng.pick(&[".word", ".byte", ".half"]);
                let tail = *rng.pick(&["@", "$", "\u{e9}", "\"open", "'a", "1 @ 2", "@ 3", "% 4"]);
                match rng.below(3) {
                    0 => format!("{indent}{dir} 5, 6 {tail}"),
                    1 => format!("{indent}{dir} 7 {tail}"),
                    _ => format!("{indent}{dir} {tail}"),
                }
            }
        }
    }
}

/// (line -> renderings of the nodes that start on it, line -> parse errors located on it)
type Parsed = (BTreeMap<usize, Vec<String>>, BTreeMap<usize, Vec<String>>, Vec<(usize, usize)>);

fn parse(text: &str) -> Result<Parsed, String> {
    let r = guarded(|| rva::parse_only(MemReader::single(FILE, text), FILE));
    let (_, nodes, errs) = r.map_err(|p| format!("{} {}", p.site(), p.msg))?;
    let mut by_line: BTreeMap<usize, Vec<String>> = BTreeMap::new();
    let mut spans = Vec::new();
    for n in &nodes {
        if matches!(n, ParserNode::ProgramEntry(_)) {
            continue;
        }
        let r = n.range();
        by_line.entry(r.start().zero_idx_line()).or_default().push(format!("{n}"));
        spans.push((r.start().zero_idx_line(), r.end().zero_idx_line()));
    }
    let mut err_lines: BTreeMap<usize, Vec<String>> = BTreeMap::new();
    for e in &errs {
        let v: &ParseError = e;
        err_lines.entry(v.range().start().zero_idx_line()).or_default().push(format!("{v}"));
    }
    Ok((by_line, err_lines, spans))
}

fn has_content(line: &str) -> bool {
    let t = line.trim();
    !(t.is_empty() || t.starts_with('#'))
}

fn position_class(l: usize, first: usize, last: usize) -> &'static str {
    if l == first {
        "first-line"
    } else if l == last {
        "last-line"
    } else {
        "middle"
    }
}

#[allow(clippy::too_many_lines)]
pub fn run(ctx: &Ctx) -> i32 {
    let mut rep = Report::new(
        ctx,
        "files of one statement per line (generated programs incl. data sections, with or without a header comment / final newline); one line is replaced by a malformed one \
         (19 defect kinds: wrong / missing / extra operand, unknown mnemonic or directive, stray + ; @ $ :, non-ASCII letter, lone CR, unterminated string or char, text after a closing quote, a directive without operands, a statement cut after any token, a stray token in a data list, a label definition in operand position) at the first, a middle or \
         the last line, or two consecutive lines; also whole-file CR/LF endings and a final line truncated after each token with and without newline. Oracle: (coverage) every non-blank, non-comment line has a node starting on it \
         (or inside a multi-line data list) or a parse error located on it; (containment) all other lines yield exactly the nodes they yield when the bad line is blank, and no errors. \
         distinct_nontrivial = distinct mutated files judged",
    );
    rep.assume("a `.word` list that continues on the following line is covered by its directive node");
    let per_shard = ctx.tier.pick(50, 400);
    let acc = run_sharded(ctx, |shard| {
        let mut acc = Acc::new();
        for k in 0..per_shard {
            let mut rng = Rng::derive(ctx.seed, 7_000 + shard as u64, k as u64);
            let g = gen::generate(&mut rng, &Profile::conforming(), None);
            let mut st = Style::plain();
            st.header = rng.chance(0.7);
            st.trailing_newline = rng.chance(0.7);
            let text = print(&g.prog, &st, &mut Rng::new(1)).text;
            let lines: Vec<String> = text.lines().map(str::to_string).collect();
            // instruction lines (indented, not directives, not labels)
            let ins_lines: Vec<usize> = lines
                .iter()
                .enumerate()
                .filter(|(_, l)| l.starts_with("    ") && !l.trim_start().starts_with('.') && !l.trim_start().starts_with('#'))
                .map(|(i, _)| i)
                .collect();
            if ins_lines.len() < 5 {
                continue;
            }
            let (first, last) = (ins_lines[0], *ins_lines.last().unwrap());
            let Ok(clean) = parse(&text) else { continue };
            if !clean.1.is_empty() {
                acc.count("clean_file_has_parse_errors", 1);
                continue;
            }
            let join = |ls: &[String]| {
                let mut t = ls.join("\n");
                if st.trailing_newline {
                    t.push('\n');
                }
                t
            };
            // ---------- one (or two consecutive) malformed lines
            for d in DEFECTS {
                let target = match rng.below(4) {
                    0 => first,
                    1 => last,
                    _ => ins_lines[rng.below(ins_lines.len())],
                };
                let two = rng.chance(0.15) && target != last && ins_lines.contains(&(target + 1));
                let mut bad = lines.clone();
                let mut blank = lines.clone();
                bad[target] = d.apply(&lines[target], &mut rng);
                blank[target] = String::new();
                if two {
                    bad[target + 1] = d.apply(&lines[target + 1], &mut rng);
                    blank[target + 1] = String::new();
                }
                if d == Defect::UnterminatedMacro && rng.chance(0.5) {
                    // a properly closed macro further down (in both files): the lines between the unclosed
                    // `.macro` and that pair belong to neither
                    for l in [".macro later", "    addi t0, t0, 1", ".endmacro"] {
                        bad.push(l.to_string());
                        blank.push(l.to_string());
                    }
                    acc.count("unclosed_macro_with_a_closed_one_further_down", 1);
                }
                let bad_text = join(&bad);
                let blank_text = join(&blank);
                acc.evaluations += 1;
                acc.count(&format!("defect:{}", d.name()), 1);
                let pos = if two { "two-consecutive" } else { position_class(target, first, last) };
                let replay = json!({"defect": d.name(), "line": target, "file": bad_text});
                let (pb, pk) = match (parse(&bad_text), parse(&blank_text)) {
                    (Ok(a), Ok(b)) => (a, b),
                    (Err(e), _) | (_, Err(e)) => {
                        acc.violation(format!("C07|panic|{}|{pos}", d.name()), format!("parsing panics: {e}"), replay);
                        continue;
                    }
                };
                acc.nontrivial.insert(hash64(&bad_text));
                let bad_set: Vec<usize> = if two { vec![target, target + 1] } else { vec![target] };
                // coverage of the bad line(s): a node or an error on it
                for b in &bad_set {
                    // a lone CR keeps the line well-formed for assemblers; node or error both count
                    let covered = pb.0.contains_key(b) || pb.1.contains_key(b);
                    if d.must_error() && !pb.1.contains_key(b) && covered {
                        acc.violation(
                            format!("C07|dropped-token|{}|{pos}", d.name()),
                            format!("malformed line {} `{}` contains something that is no token of the language, but no error is reported on it", b + 1, bad[*b].trim().escape_debug()),
                            replay.clone(),
                        );
                    }
                    if !covered {
                        let elsewhere = pb.1.keys().next().copied();
                        acc.violation(
                            format!("C07|dropped|{}|{pos}", d.name()),
                            format!("malformed line {} `{}` yields neither a node nor a parse error on it (errors on lines {:?})", b + 1, bad[*b].trim().escape_debug(), elsewhere.map(|l| l + 1)),
                            replay.clone(),
                        );
                    }
                }
                // containment: every other line as in the blanked file
                let mut reported = false;
                for (l, line) in bad.iter().enumerate() {
                    if bad_set.contains(&l) || !has_content(line) {
                        continue;
                    }
                    let got = pb.0.get(&l).cloned().unwrap_or_default();
                    let want = pk.0.get(&l).cloned().unwrap_or_default();
                    let inside_list = pb.2.iter().any(|(a, b)| *a < l && l <= *b) && pk.2.iter().any(|(a, b)| *a < l && l <= *b);
                    if got != want && !inside_list && !reported {
                        reported = true;
                        let kind = if bad_set.contains(&(l.wrapping_sub(1))) && got.is_empty() { "swallow-next" } else { "spill-over" };
                        acc.violation(
                            format!("C07|{kind}|{}|{pos}", d.name()),
                            format!("line {} `{}` yields {:?} next to the malformed line {} `{}`, but {:?} when that line is blank", l + 1, line.trim(), got, target + 1, bad[target].trim().escape_debug(), want),
                            replay.clone(),
                        );
                    }
                    if let Some(e) = pb.1.get(&l) {
                        // (a line that is unsupported by itself - the `.macro` of a closed macro - carries its error in both files)
                        if !reported && pk.1.get(&l) != Some(e) {
                            reported = true;
                            acc.violation(
                                format!("C07|spill-over-error|{}|{pos}", d.name()),
                                format!("well-formed line {} `{}` gets parse error(s) {:?} because of the malformed line {}", l + 1, line.trim(), e, target + 1),
                                replay.clone(),
                            );
                        }
                    }
                }
            }
            // ---------- whole file with CR/LF line endings
            {
                let crlf = text.replace('\n', "\r\n");
                acc.evaluations += 1;
                acc.count("defect:crlf-file", 1);
                let replay = json!({"defect": "crlf-file", "file": crlf});
                match parse(&crlf) {
                    Ok(p) => {
                        let missing: Vec<usize> = lines.iter().enumerate().filter(|(l, s)| has_content(s) && !p.0.contains_key(l) && !p.1.contains_key(l) && !p.2.iter().any(|(a, b)| a < l && l <= b)).map(|(l, _)| l + 1).collect();
                        if !missing.is_empty() {
                            acc.violation(
                                "C07|dropped|crlf-file|whole-file".to_string(),
                                format!("with CR/LF line endings {} of {} statement lines yield neither a node nor an error (first: line {})", missing.len(), lines.iter().filter(|s| has_content(s)).count(), missing[0]),
                                replay,
                            );
                        }
                        acc.nontrivial.insert(hash64(&crlf));
                    }
                    Err(e) => acc.violation("C07|panic|crlf-file|whole-file".to_string(), format!("parsing panics: {e}"), replay),
                }
            }
            // ---------- truncated final line
            for final_nl in [false, true] {
                let statement = ["    addi t0, t1, 5", "    lw a0, 8(sp)", "    beq a0, a1, main", "    jal ra, main", "    .word 1, 2, 3", "    .asciz \"end\"", "    sw t0, 4(sp)", "    li t3, 77"][rng.below(8)];
                let toks: Vec<&str> = statement.split(' ').filter(|s| !s.is_empty()).collect();
                let cut = 1 + rng.below(toks.len());
                let piece = format!("    {}", toks[..cut].join(" "));
                let complete = cut == toks.len();
                let mut t = join(&lines);
                if !t.ends_with('\n') {
                    t.push('\n');
                }
                t.push_str(&piece);
                if final_nl {
                    t.push('\n');
                }
                let l = t.lines().count() - 1;
                acc.evaluations += 1;
                acc.count("defect:truncated-final-line", 1);
                let replay = json!({"defect": "truncated-final-line", "file": t});
                match parse(&t) {
                    Ok(p) => {
                        let covered = p.0.contains_key(&l) || p.1.contains_key(&l);
                        if !covered {
                            acc.violation(
                                format!("C07|dropped|truncated-final-line|{}|{}", if complete { "complete-statement" } else { "cut-statement" }, if final_nl { "with-newline" } else { "no-newline" }),
                                format!("final line `{}` yields neither a node nor a parse error", piece.trim()),
                                replay,
                            );
                        }
                        acc.nontrivial.insert(hash64(&t));
                    }
                    Err(e) => acc.violation("C07|panic|truncated-final-line".to_string(), format!("parsing panics: {e}"), replay),
                }
            }
            if k == 0 && shard == 0 {
                acc.sample(json!({"defect": "missing-last-operand", "replacement": Defect::MissingLastOperand.apply(&lines[first], &mut rng), "original": lines[first]}));
            }
        }
        acc
    });
    rep.acc.merge(acc);
    for d in DEFECTS {
        rep.require(&format!("defect:{}", d.name()), 20);
    }
    rep.finish()
}
