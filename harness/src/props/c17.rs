//! C17 - numeric literals mean what they say.
//!
//! Reference model: optional '-' sign, radix by prefix (0x/0X, 0b/0B, else decimal), or a
//! character literal; value v in Z. Fits iff -2^31 <= v <= 2^32-1; the reading is v mod 2^32.
//! Every spelling is pushed through the whole front end in several operand contexts.

use crate::report::{Acc, Ctx, Report, Tier};
use crate::rng::{hash64, Rng};
use crate::rva::{self, guarded, MemReader};
use riscv_analysis::parser::{DirectiveType, ParserNode};
use riscv_analysis::passes::DiagnosticLocation;
use serde_json::json;

#[derive(Clone, Copy, Debug, PartialEq, Eq)]
enum Radix {
    Dec,
    Hex,
    Bin,
    Char,
}

impl Radix {
    fn name(self) -> &'static str {
        match self {
            Radix::Dec => "dec",
            Radix::Hex => "hex",
            Radix::Bin => "bin",
            Radix::Char => "char",
        }
    }
}

#[derive(Clone, Debug)]
struct Lit {
    text: String,
    /// denoted value; None = malformed spelling
    value: Option<i128>,
    radix: Radix,
    negative: bool,
    malformed_kind: &'static str,
}

fn spell(mag: u128, negative: bool, radix: Radix, upper_prefix: bool, upper_digits: bool, pad: usize) -> Lit {
    let digits = match radix {
        Radix::Dec => format!("{mag}"),
        Radix::Hex => {
            if upper_digits {
                format!("{mag:X}")
            } else {
                format!("{mag:x}")
            }
        }
        Radix::Bin => format!("{mag:b}"),
        Radix::Char => String::new(),
    };
    let zeros = "0".repeat(pad);
    let body = match radix {
        Radix::Dec => format!("{}{digits}", if pad > 0 && mag != 0 { "" } else { "" }),
        Radix::Hex => format!("{}{zeros}{digits}", if upper_prefix { "0X" } else { "0x" }),
        Radix::Bin => format!("{}{zeros}{digits}", if upper_prefix { "0B" } else { "0b" }),
        Radix::Char => String::new(),
    };
    let text = format!("{}{body}", if negative { "-" } else { "" });
    let v = if negative { -(mag as i128) } else { mag as i128 };
    Lit { text, value: Some(v), radix, negative, malformed_kind: "" }
}

fn fits(v: i128) -> bool {
    v >= -(1i128 << 31) && v <= (1i128 << 32) - 1
}

fn reading(v: i128) -> i32 {
    (v.rem_euclid(1i128 << 32)) as u32 as i32
}

fn mag_class(v: i128) -> &'static str {
    let m = v.unsigned_abs();
    if m < (1u128 << 31) {
        "<2^31"
    } else if m == (1u128 << 31) {
        "=2^31"
    } else if m < (1u128 << 32) {
        "2^31..2^32-1"
    } else {
        ">=2^32"
    }
}

#[derive(Clone, Copy, Debug, PartialEq, Eq)]
enum Context {
    Li,
    Addi,
    LoadOffset,
    Word,
    Byte,
    Half,
    Lui,
    Csr,
    /// `jalr t0, <imm>` (link in ra) and `sw t0, <imm>(t1)`
    Jalr,
    StoreOffset,
    /// `jalr t2, t0, <imm>` and `jalr t2, <imm>(t0)`
    JalrThree,
    JalrParen,
}

const CONTEXTS: [Context; 12] = [
    Context::Li,
    Context::Addi,
    Context::LoadOffset,
    Context::Word,
    Context::Byte,
    Context::Half,
    Context::Lui,
    Context::Csr,
    Context::Jalr,
    Context::StoreOffset,
    Context::JalrThree,
    Context::JalrParen,
];

impl Context {
    fn name(self) -> &'static str {
        match self {
            Context::Li => "li",
            Context::Addi => "addi",
            Context::LoadOffset => "lw-offset",
            Context::Word => ".word",
            Context::Byte => ".byte",
            Context::Half => ".half",
            Context::Lui => "lui",
            Context::Csr => "csr-operand",
            Context::Jalr => "jalr-offset",
            Context::StoreOffset => "store-offset",
            Context::JalrThree => "jalr-rd-rs-offset",
            Context::JalrParen => "jalr-rd-offset(rs)",
        }
    }
    /// (text of the line, column where the literal starts)
    fn line(self, lit: &str) -> (String, usize) {
        let prefix = match self {
            Context::Li => "    li t0, ",
            Context::Addi => "    addi t0, t1, ",
            Context::LoadOffset => "    lw t0, ",
            Context::Word => "    .word ",
            Context::Byte => "    .byte ",
            Context::Half => "    .half ",
            Context::Lui => "    lui t0, ",
            Context::Csr => "    csrrw t0, ",
            Context::Jalr => "    jalr t0, ",
            Context::StoreOffset => "    sw t0, ",
            Context::JalrThree => "    jalr t2, t0, ",
            Context::JalrParen => "    jalr t2, ",
        };
        let suffix = match self {
            Context::LoadOffset | Context::StoreOffset => "(t1)",
            Context::JalrParen => "(t0)",
            Context::Csr => ", t1",
            _ => "",
        };
        (format!("{prefix}{lit}{suffix}"), prefix.chars().count())
    }
}

/// What the front end made of the literal.
#[derive(Debug)]
enum Seen {
    Value(i64),
    Rejected { on_literal: bool, where_: String },
    Nothing,
    Panic(String),
}

fn observe(ctxk: Context, lit: &str) -> Seen {
    let (line, col) = ctxk.line(lit);
    // line 0 is a comment so that the statement is not on the first line (C09's subject)
    let text = format!("# c17\n{line}\n    nop\n");
    let r = guarded(|| rva::parse_only(MemReader::single("main.s", &text), "main.s"));
    let (_, nodes, errs) = match r {
        Ok(x) => x,
        Err(p) => return Seen::Panic(format!("{} {}", p.site(), p.class())),
    };
    let lit_len = lit.chars().count();
    if let Some(e) = errs.first() {
        let r = e.range();
        let on_line = r.start().zero_idx_line() == 1;
        let (c0, c1) = (r.start().zero_idx_column(), r.end().zero_idx_column());
        let overlap = on_line && c0 < col + lit_len.max(1) && c1 + 1 > col;
        return Seen::Rejected {
            on_literal: overlap,
            where_: format!("L{} {}..{} `{}`", r.start().zero_idx_line(), c0, c1, e.raw_text()),
        };
    }
    for n in &nodes {
        match (ctxk, n) {
            (Context::Li | Context::Addi | Context::Lui, ParserNode::IArith(a)) if a.rd.get().to_num() == 5 => {
                return Seen::Value(i64::from(a.imm.get().value()));
            }
            (Context::LoadOffset, ParserNode::Load(l)) => return Seen::Value(i64::from(l.imm.get().value())),
            (Context::StoreOffset, ParserNode::Store(l)) => return Seen::Value(i64::from(l.imm.get().value())),
            (Context::Jalr | Context::JalrThree | Context::JalrParen, ParserNode::JumpLinkR(j)) => {
                // the literal must have become the offset of a jump through t0; anything else
                // means that it was dropped
                return if j.rs1.get().to_num() == 5 { Seen::Value(i64::from(j.imm.get().value())) } else { Seen::Nothing };
            }
            (Context::Csr, ParserNode::Csr(c)) => return Seen::Value(i64::from(c.csr.get().value() as i32)),
            (Context::Word | Context::Byte | Context::Half, ParserNode::Directive(d)) => {
                if let DirectiveType::Data(_, vals) = &d.dir {
                    return match vals.first() {
                        Some(v) => Seen::Value(i64::from(v.get().value())),
                        None => Seen::Nothing,
                    };
                }
            }
            _ => {}
        }
    }
    Seen::Nothing
}

fn judge(l: &Lit, ctxk: Context, acc: &mut Acc) {
    acc.evaluations += 1;
    acc.note("contexts", ctxk.name());
    let seen = observe(ctxk, &l.text);
    let sign = if l.negative { "neg" } else { "pos" };
    let replay = json!({"literal": l.text, "context": ctxk.name()});
    let sig = |kind: &str, cls: &str| format!("C17|{kind}|{}|{sign}|{cls}", l.radix.name());
    match (&l.value, seen) {
        (_, Seen::Panic(p)) => acc.violation(
            sig("panic", l.value.map(mag_class).unwrap_or(l.malformed_kind)),
            format!("reading literal `{}` in {} panics: {p}", l.text, ctxk.name()),
            replay,
        ),
        (Some(v), seen) if fits(*v) => {
            acc.count("fitting_checked", 1);
            // lui: only 0 <= v < 2^20 is defined by the statement
            let expect: Option<i64> = match ctxk {
                Context::Lui => {
                    // (negative operands down to -2^19 are the same 20 bits in two's complement)
                    // (judged on the 32-bit reading of the literal, like every other operand: 0xffffffff is -1)
                    let r = i64::from(reading(*v));
                    if r >= -(1 << 19) && r < (1 << 20) {
                        Some(i64::from((r << 12) as i32))
                    } else {
                        None
                    }
                }
                _ => Some(i64::from(reading(*v))),
            };
            let Some(expect) = expect else {
                // an operand that does not fit the 20 bits of lui: accepting it means reading it as
                // a different number (the high bits fall off)
                acc.count("lui_operands_wider_than_20_bits", 1);
                match seen {
                    Seen::Rejected { .. } => {
                        acc.nontrivial.insert(hash64(&format!("{}@{}", l.text, ctxk.name())));
                    }
                    Seen::Value(got) => acc.violation(
                        sig("accept-unfitting", "lui-operand-wider-than-20-bits"),
                        format!("`{}` (= {v}) does not fit the 20-bit operand of lui, but is accepted and the register is loaded with {got}", l.text),
                        replay,
                    ),
                    Seen::Nothing => acc.violation(sig("vanished", "lui-operand-wider-than-20-bits"), format!("`{}` in lui: no node and no error", l.text), replay),
                    Seen::Panic(_) => unreachable!(),
                }
                return;
            };
            match seen {
                Seen::Value(got) if got == expect => {
                    acc.nontrivial.insert(hash64(&format!("{}@{}", l.text, ctxk.name())));
                }
                Seen::Value(got) => acc.violation(
                    sig("wrong-value", mag_class(*v)),
                    format!("`{}` in {} is read as {got}, denotes {v} (32-bit reading {expect})", l.text, ctxk.name()),
                    replay,
                ),
                Seen::Rejected { where_, .. } => acc.violation(
                    sig("reject-fitting", mag_class(*v)),
                    format!("`{}` (= {v}, fits in 32 bits) in {} is rejected: error at {where_}", l.text, ctxk.name()),
                    replay,
                ),
                Seen::Nothing => acc.violation(
                    sig("vanished", mag_class(*v)),
                    format!("`{}` in {}: no node and no error", l.text, ctxk.name()),
                    replay,
                ),
                Seen::Panic(_) => unreachable!(),
            }
        }
        (value, seen) => {
            // does not fit, or malformed: must be rejected with an error on the literal
            let cls = match value {
                Some(v) => mag_class(*v),
                None => l.malformed_kind,
            };
            let kind = if value.is_some() { "unfitting" } else { "malformed" };
            acc.count(&format!("{kind}_checked"), 1);
            match seen {
                Seen::Rejected { on_literal: true, .. } => {
                    acc.nontrivial.insert(hash64(&format!("{}@{}", l.text, ctxk.name())));
                }
                Seen::Rejected { on_literal: false, where_ } => acc.violation(
                    sig("misplaced-error", cls),
                    format!("`{}` in {} is rejected, but the error is at {where_}, not on the literal", l.text, ctxk.name()),
                    replay,
                ),
                Seen::Value(got) => acc.violation(
                    sig(&format!("accept-{kind}"), cls),
                    format!("`{}` in {} is accepted and read as {got}", l.text, ctxk.name()),
                    replay,
                ),
                Seen::Nothing => acc.violation(
                    sig(&format!("{kind}-no-error"), cls),
                    format!("`{}` in {}: neither accepted nor reported (the statement vanished)", l.text, ctxk.name()),
                    replay,
                ),
                Seen::Panic(_) => unreachable!(),
            }
        }
    }
}

fn boundary_magnitudes() -> Vec<u128> {
    let mut v: Vec<u128> = vec![0, 1, 2, 9, 10, 255, 256];
    for k in 1..=33u32 {
        let p = 1u128 << k;
        v.push(p - 1);
        v.push(p);
        v.push(p + 1);
    }
    v.push((1u128 << 32) - 2);
    v.push(99_999_999_999_999_999_999u128);
    v.push(u128::from(u64::MAX));
    v.push(u128::from(u64::MAX) + 1);
    v.sort_unstable();
    v.dedup();
    v
}

fn malformed() -> Vec<Lit> {
    let mk = |t: &str, kind: &'static str, radix: Radix| Lit {
        text: t.to_string(),
        value: None,
        radix,
        negative: t.starts_with('-'),
        malformed_kind: kind,
    };
    vec![
        mk("0x", "empty-digits", Radix::Hex),
        mk("0b", "empty-digits", Radix::Bin),
        mk("0b2", "bad-digit", Radix::Bin),
        mk("0xg", "bad-digit", Radix::Hex),
        mk("12a", "bad-digit", Radix::Dec),
        mk("--1", "double-sign", Radix::Dec),
        mk("1-", "trailing-sign", Radix::Dec),
        mk("0x-1", "inner-sign", Radix::Hex),
        mk("0b-1", "inner-sign", Radix::Bin),
        mk("-", "sign-only", Radix::Dec),
        mk("1_000", "underscore", Radix::Dec),
        mk("0x_1", "underscore", Radix::Hex),
        mk("1-2", "inner-sign", Radix::Dec),
        mk("0x1-2", "inner-sign", Radix::Hex),
        // character literals
        mk("'\\u12G4'", "char-bad-hex-digit", Radix::Char),
        mk("'\\uzzzz'", "char-bad-hex-digit", Radix::Char),
        mk("'\\u-041'", "char-bad-hex-digit", Radix::Char),
        mk("'\\u 041'", "char-bad-hex-digit", Radix::Char),
        mk("'\\u12'", "char-short-escape", Radix::Char),
        mk("'\\u'", "char-short-escape", Radix::Char),
        mk("'\\x41'", "char-unknown-escape", Radix::Char),
        mk("'\\q'", "char-unknown-escape", Radix::Char),
        mk("'ab'", "char-two-characters", Radix::Char),
        mk("''", "char-empty", Radix::Char),
        mk("'\\uD800'", "char-surrogate", Radix::Char),
    ]
}

pub fn run(ctx: &Ctx) -> i32 {
    let mut rep = Report::new(
        ctx,
        "each literal spelling (value x notation x sign x letter case x zero padding) is placed in 10 operand contexts \
         (li, addi, lw / sw offset, jalr offset, .word/.byte/.half, lui, CSR operand) and parsed by the real front end; boundaries \
         0, 2^k-1, 2^k, 2^k+1 for k<=33 and huge magnitudes exhaustively in dec/hex/bin with both signs, random 32-bit values, \
         character literals, malformed spellings. distinct_nontrivial = distinct (spelling, context) pairs whose reading/rejection was confirmed correct",
    );
    rep.assume("reference denotation: optional '-' then decimal, 0x/0X hex, 0b/0B binary digits, or a character literal; fits iff -2^31 <= v <= 2^32-1");
    rep.assume("lui: operands -2^19 <= v < 2^20 must give v << 12 (no bit is lost); any other operand cannot be placed in the upper 20 bits and must be rejected");
    rep.assume("`zero` being accepted as the immediate 0 is noted, not judged");
    let n_random: usize = ctx.tier.pick(1_000_000, 10_000_000);
    let jobs = ctx.jobs;
    let acc = crate::report::run_sharded(ctx, |shard| {
        let mut acc = Acc::new();
        let mut rng = Rng::derive(ctx.seed, 17, shard as u64);
        // ---- boundaries, exhaustively (sharded round-robin)
        let mut k = 0usize;
        for mag in boundary_magnitudes() {
            for radix in [Radix::Dec, Radix::Hex, Radix::Bin] {
                for negative in [false, true] {
                    for variant in 0..3 {
                        k += 1;
                        if k % jobs != shard {
                            continue;
                        }
                        let l = spell(mag, negative, radix, variant == 1, variant == 2, if variant == 2 { 3 } else { 0 });
                        acc.count("boundary_spellings", 1);
                        for c in CONTEXTS {
                            judge(&l, c, &mut acc);
                        }
                        if acc.samples.len() < 2 && mag == (1u128 << 31) {
                            acc.sample(json!({"literal": l.text, "denotes": l.value.map(|v| v.to_string()), "fits": l.value.map(fits)}));
                        }
                    }
                }
            }
        }
        // ---- malformed spellings
        for (i, l) in malformed().iter().enumerate() {
            if i % jobs == shard {
                for c in CONTEXTS {
                    judge(l, c, &mut acc);
                }
                acc.sample(json!({"malformed": l.text, "kind": l.malformed_kind}));
            }
        }
        // ---- character literals
        if shard == 0 {
            for c in 32u8..127 {
                if c == b'\'' || c == b'\\' {
                    continue;
                }
                let l = Lit {
                    text: format!("'{}'", char::from(c)),
                    value: Some(i128::from(c)),
                    radix: Radix::Char,
                    negative: false,
                    malformed_kind: "",
                };
                for cx in [Context::Li, Context::Addi, Context::Byte, Context::Word] {
                    judge(&l, cx, &mut acc);
                }
            }
            for (t, v) in [("'\\n'", 10), ("'\\t'", 9), ("'\\0'", 0), ("'\\\\'", 92), ("'\\''", 39), ("'\u{e9}'", 233), ("'\u{20ac}'", 0x20ac), ("'\\u0041'", 0x41), ("'\\u00e9'", 0xe9), ("'\\u20AC'", 0x20ac), ("'\\u0000'", 0)] {
                let l = Lit { text: t.to_string(), value: Some(v), radix: Radix::Char, negative: false, malformed_kind: "" };
                for cx in [Context::Li, Context::Byte] {
                    judge(&l, cx, &mut acc);
                }
            }
        }
        // ---- random 32-bit values in all notations
        let per = n_random / jobs;
        for _ in 0..per {
            let raw = rng.next_u32();
            let radix = *rng.pick(&[Radix::Dec, Radix::Hex, Radix::Bin]);
            // either the unsigned magnitude, or the signed reading with a sign
            let (mag, negative) = if rng.chance(0.5) {
                (u128::from(raw), false)
            } else {
                let s = raw as i32;
                (u128::from(s.unsigned_abs()), s < 0)
            };
            let l = spell(mag, negative, radix, rng.chance(0.3), rng.chance(0.3), rng.below(3));
            let c = *rng.pick(&CONTEXTS);
            acc.count("random_spellings", 1);
            judge(&l, c, &mut acc);
        }
        acc
    });
    rep.acc.merge(acc);
    rep.extra.insert(
        "exhaustive_subspaces".into(),
        json!([{"name": "boundary magnitudes x {dec,hex,bin} x sign x 3 letter-case/padding variants x 8 contexts", "exhaustive": true}]),
    );
    rep.require("boundary_spellings", 1000);
    rep.require("fitting_checked", 10_000);
    rep.require("unfitting_checked", 500);
    rep.finish()
}
