//! C18 - all output channels report the same diagnostics, well-formed and ordered.

use super::c07::{Defect, DEFECTS};
use super::c10::split_into_files;
use super::common::*;
use crate::cli::{self, CliDiag, Scratch};
use crate::gen::{self, Profile, ALL_INJECT};
use crate::print::{print, Style};
use crate::report::{run_sharded, Acc, Ctx, Report};
use crate::rng::{hash64, Rng};
use crate::rva::{self, guarded, MemReader};
use crate::shapes;
use serde_json::json;
use std::collections::BTreeMap;

fn lib_list(files: &[(String, String)]) -> Result<Vec<CliDiag>, String> {
    // (a file may be included several times: like the CLI's reader, every delivery gets a fresh id)
    let r = guarded(|| {
        let mut rd = MemReader::new(files);
        rd.reread = crate::rva::Reread::AllowFreshId;
        rva::run_editor_entry(rd, FILE)
    });
    let (_, diags) = r.map_err(|p| format!("{} {}", p.site(), p.msg))?;
    Ok(diags
        .iter()
        .map(|d| CliDiag { sev: d.sev, title: d.title.clone(), file: d.file.clone(), line: d.span.start.line, c0: d.span.start.col, c1: d.span.end.col })
        .collect())
}

fn strip_dir(mut v: Vec<CliDiag>, dir: &str) -> Vec<CliDiag> {
    for d in v.iter_mut() {
        d.file = d.file.strip_prefix(dir).map(|s| s.trim_start_matches('/').to_string()).unwrap_or_else(|| d.file.clone());
    }
    v
}

/// First difference between two lists, as (field, detail).
fn diff(a: &[CliDiag], b: &[CliDiag]) -> Option<(String, String)> {
    for (x, y) in a.iter().zip(b.iter()) {
        if x != y {
            let field = if x.title != y.title {
                "title"
            } else if x.sev != y.sev {
                "severity"
            } else if x.file != y.file {
                "file"
            } else if x.line != y.line {
                "line"
            } else {
                "columns"
            };
            return Some((field.to_string(), format!("{x:?} vs {y:?}")));
        }
    }
    if a.len() != b.len() {
        return Some(("count".to_string(), format!("{} vs {} items", a.len(), b.len())));
    }
    None
}

#[allow(clippy::too_many_lines)]
fn check_fileset(ctx: &Ctx, kind: &str, files: &[(String, String)], rng: &mut Rng, acc: &mut Acc) {
    acc.evaluations += 1;
    let replay = json!({"kind": kind, "files": files});
    let lib_all = match lib_list(files) {
        Ok(v) => v,
        Err(e) => {
            acc.count("library_panicked", 1);
            acc.note("library_panics", e);
            return;
        }
    };
    let lib_base: Vec<CliDiag> = lib_all.iter().filter(|d| d.file == FILE).cloned().collect();
    let others = lib_all.len() - lib_base.len();
    acc.count("library_diagnostics", lib_all.len() as u64);
    if !lib_all.is_empty() {
        acc.nontrivial.insert(hash64(&format!("{files:?}")));
    }
    // ---- sorted by position within each file, non-empty titles, one severity per title
    let mut last: BTreeMap<&str, (usize, usize)> = BTreeMap::new();
    for d in &lib_all {
        if d.title.trim().is_empty() {
            acc.violation("C18|empty-title".to_string(), format!("a diagnostic has an empty title: {d:?}"), replay.clone());
        }
        acc.note("title_severity", format!("{}|{}", d.title.split(':').next().unwrap_or(""), d.sev.as_str()));
        if let Some(prev) = last.get(d.file.as_str()) {
            if (d.line, d.c0) < *prev {
                acc.violation("C18|unsorted|library".to_string(), format!("diagnostics of {} are not sorted by position: {:?} after {:?}", d.file, (d.line, d.c0), prev), replay.clone());
            }
        }
        last.insert(d.file.as_str(), (d.line, d.c0));
    }
    if ctx.rva_checked.as_os_str().is_empty() {
        return;
    }
    let sc = Scratch::new(&ctx.root, "c18");
    for (n, t) in files {
        sc.write(n, t);
    }
    let dir = sc.dir.to_string_lossy().to_string();
    let exe = if rng.chance(0.7) { &ctx.rva_checked } else { &ctx.rva_release };
    for all_files in [false, true] {
        let want = if all_files { &lib_all } else { &lib_base };
        let sel = if all_files { "all-files" } else { "base-file" };
        for color in [true, false] {
            // ---------- compact
            let mut args = vec!["lint", "--compact"];
            if !color {
                args.push("--no-color");
            }
            if all_files {
                args.push("--all-files");
            }
            args.push(FILE);
            let run = cli::rva(exe, &args, &sc.dir);
            acc.count("cli_runs", 1);
            if run.timed_out || run.code != Some(0) {
                acc.violation(
                    format!("C18|abnormal-exit|compact|{sel}"),
                    format!("`rva {}` ends abnormally: code {:?} signal {:?} timeout {} stderr `{}`", args.join(" "), run.code, run.signal, run.timed_out, run.stderr.lines().next().unwrap_or("")),
                    replay.clone(),
                );
                continue;
            }
            if !color && run.stdout.contains('\u{1b}') {
                acc.violation("C18|escape-in-no-color|compact".to_string(), "--no-color output contains an escape character".to_string(), replay.clone());
            }
            match cli::parse_compact(&run.stdout) {
                Ok((list, cnt)) => {
                    let list = strip_dir(list, &dir);
                    if let Some((field, detail)) = diff(want, &list) {
                        acc.violation(format!("C18|library~compact|{field}|{sel}"), format!("RVParser::run and --compact ({sel}) disagree in {field}: {detail}"), replay.clone());
                    } else {
                        acc.count("channel_pairs_equal", 1);
                    }
                    let want_cnt = if all_files || others == 0 { None } else { Some(others) };
                    if cnt != want_cnt {
                        acc.violation(format!("C18|other-files-count|compact|{sel}"), format!("compact output announces {cnt:?} diagnostics in other files, expected {want_cnt:?}"), replay.clone());
                    }
                }
                Err(e) => acc.violation("C18|malformed|compact".to_string(), format!("compact output cannot be parsed: {e}"), replay.clone()),
            }
            // ---------- pretty
            let mut args = vec!["lint"];
            if !color {
                args.push("--no-color");
            }
            if all_files {
                args.push("--all-files");
            }
            args.push(FILE);
            let run = cli::rva(exe, &args, &sc.dir);
            acc.count("cli_runs", 1);
            if run.timed_out || run.code != Some(0) {
                acc.violation(
                    format!("C18|abnormal-exit|pretty|{sel}"),
                    format!("`rva {}` ends abnormally: code {:?} signal {:?} timeout {} stderr `{}`", args.join(" "), run.code, run.signal, run.timed_out, run.stderr.lines().next().unwrap_or("")),
                    replay.clone(),
                );
                continue;
            }
            if !color && run.stdout.contains('\u{1b}') {
                acc.violation("C18|escape-in-no-color|pretty".to_string(), "--no-color output contains an escape character".to_string(), replay.clone());
            }
            match cli::parse_pretty(&run.stdout) {
                Ok((items, _)) => {
                    if items.len() != want.len() {
                        acc.violation(format!("C18|library~pretty|count|{sel}"), format!("pretty output has {} items, the library {}", items.len(), want.len()), replay.clone());
                    } else {
                        let mut ok = true;
                        for (it, w) in items.iter().zip(want.iter()) {
                            let file = it.file.strip_prefix(&dir).map(|s| s.trim_start_matches('/').to_string()).unwrap_or_else(|| it.file.clone());
                            if it.sev != w.sev || it.title != w.title || file != w.file {
                                ok = false;
                                acc.violation(format!("C18|library~pretty|header|{sel}"), format!("pretty item `{}: {}` in {file} vs library {w:?}", it.sev.as_str(), it.title), replay.clone());
                                break;
                            }
                            // the excerpt: line L of the file (trimmed), carets under the reported columns
                            let src = files.iter().find(|(n, _)| *n == w.file).map(|(_, t)| t.as_str()).unwrap_or("");
                            let src_line = src.split('\n').nth(w.line).unwrap_or("");
                            match &it.excerpt {
                                None => {
                                    ok = false;
                                    acc.violation(format!("C18|caret|no-excerpt|{sel}"), format!("no source excerpt for {w:?}"), replay.clone());
                                    break;
                                }
                                Some((n, text, marks)) => {
                                    // how many characters of the line stand in front of what the excerpt shows
                                    // (the shown text is looked up in the line: no assumption about what the printer strips)
                                    let shown: Vec<char> = text.trim_end().chars().collect();
                                    let line_chars: Vec<char> = src_line.chars().collect();
                                    let first_non_ws = if shown.is_empty() { line_chars.len().min(w.c0) } else { (0..=line_chars.len().saturating_sub(shown.len())).find(|i| line_chars[*i..].starts_with(&shown)).unwrap_or(0) };
                                    if w.c0 < first_non_ws {
                                        ok = false;
                                        acc.violation(
                                            "C18|caret|character-not-shown".to_string(),
                                            format!("the diagnostic is about column {} of line {} ({:?}), the excerpt `{text}` starts at column {}: what it is about is not shown", w.c0 + 1, w.line + 1, line_chars.get(w.c0), first_non_ws + 1),
                                            replay.clone(),
                                        );
                                        break;
                                    }
                                    let want_start = w.c0 - first_non_ws;
                                    let want_len = w.c1 + 1 - w.c0;
                                    if marks.contains('\r') {
                                        ok = false;
                                        acc.violation("C18|caret|carriage-return-in-marker-line".to_string(), format!("the marker line under `{text}` contains a carriage return: on a terminal the marker is drawn at the start of the line"), replay.clone());
                                        break;
                                    }
                                    let got_start = marks.chars().position(|c| c == '^').unwrap_or(usize::MAX);
                                    let got_len = marks.chars().filter(|c| *c == '^').count();
                                    let layout = if src_line.starts_with('\t') { "tab-indented" } else if first_non_ws == 0 { "not-indented" } else { "space-indented" };
                                    // the excerpt is the line without its indentation and trailing blanks: what is cut off is white space
                                    let cut_ok = line_chars[..first_non_ws.min(line_chars.len())].iter().all(|c| c.is_whitespace())
                                        && line_chars.get(first_non_ws + shown.len()..).unwrap_or_default().iter().all(|c| c.is_whitespace())
                                        && (shown.is_empty() || line_chars[first_non_ws.min(line_chars.len())..].starts_with(&shown));
                                    if *n != w.line + 1 || !cut_ok {
                                        ok = false;
                                        acc.violation(format!("C18|caret|wrong-line|{layout}"), format!("excerpt shows line {n} `{text}`, the diagnostic is on line {} `{}`", w.line + 1, src_line.trim()), replay.clone());
                                        break;
                                    }
                                    if got_start != want_start || got_len != want_len {
                                        ok = false;
                                        acc.violation(
                                            format!("C18|caret|wrong-columns|{layout}"),
                                            format!("marker starts at {got_start} with length {got_len} under `{text}`; columns {}..{} of the line mean start {want_start} length {want_len}", w.c0, w.c1),
                                            replay.clone(),
                                        );
                                        break;
                                    }
                                    // the three lines of an excerpt share one gutter: a marker is only
                                    // under its columns if the bars stand in one screen column
                                    if let Some((a, b, c)) = it.bars {
                                        if !(a == b && b == c) {
                                            ok = false;
                                            acc.violation(
                                                format!("C18|caret|gutter-misaligned|{}", if (w.line + 1).to_string().len() != w.line.to_string().len() { "line-number-gains-a-digit" } else { "other" }),
                                                format!("the `|` of the excerpt for line {} stands in screen columns {a}, {b}, {c}: the marker is not under the columns it means", w.line + 1),
                                                replay.clone(),
                                            );
                                            break;
                                        }
                                    }
                                    acc.count("excerpts_checked", 1);
                                }
                            }
                        }
                        if ok {
                            acc.count("channel_pairs_equal", 1);
                        }
                    }
                }
                Err(e) => acc.violation("C18|malformed|pretty".to_string(), format!("pretty output cannot be parsed: {e}"), replay.clone()),
            }
        }
        // ---------- json
        let mut args = vec!["lint", "--json"];
        if all_files {
            args.push("--all-files");
        }
        args.push(FILE);
        let run = cli::rva(exe, &args, &sc.dir);
        acc.count("cli_runs", 1);
        if run.timed_out || run.code != Some(0) {
            acc.violation(format!("C18|abnormal-exit|json|{sel}"), format!("`rva {}` ends abnormally: code {:?} stderr `{}`", args.join(" "), run.code, run.stderr.lines().next().unwrap_or("")), replay.clone());
            continue;
        }
        match cli::parse_json(&run.stdout) {
            Ok(list) => {
                let list: Vec<CliDiag> = list
                    .iter()
                    .map(|d| CliDiag { sev: d.sev, title: d.title.clone(), file: d.file.clone().unwrap_or_else(|| "<none>".into()), line: d.span.start.line, c0: d.span.start.col, c1: d.span.end.col })
                    .collect();
                let list = strip_dir(list, &dir);
                if let Some((field, detail)) = diff(want, &list) {
                    acc.violation(format!("C18|library~json|{field}|{sel}"), format!("RVParser::run and --json ({sel}) disagree in {field}: {detail}"), replay.clone());
                } else {
                    acc.count("channel_pairs_equal", 1);
                }
            }
            Err(e) => acc.violation("C18|json-shape".to_string(), format!("--json output is not of the documented shape: {e}"), replay.clone()),
        }
    }
}

pub fn run(ctx: &Ctx) -> i32 {
    let mut rep = Report::new(
        ctx,
        "file sets with lints (planted violations, wild programs), parse errors (malformed lines) and analysis errors (failure shapes), single- and multi-file, spaces and tabs; each is linted through \
         RVParser::run (in-memory reader) and through the rva binary in pretty / --compact / --json, with and without --no-color and --all-files; the lists (severity, title, file, line, columns) must be equal \
         for the same file selection, sorted by position per file, JSON of the documented shape, no escape characters under --no-color, the announced count of diagnostics in other files right, and every pretty excerpt must show \
         the diagnostic's line with the marker under its columns. distinct_nontrivial = distinct file sets with >= 1 diagnostic",
    );
    rep.assume("the compact format does not print the end line; only what is printed is compared");
    let per_shard = ctx.tier.pick(12, 150);
    let acc = run_sharded(ctx, |shard| {
        let mut acc = Acc::new();
        for k in 0..per_shard {
            let mut rng = Rng::derive(ctx.seed, 18_000 + shard as u64, k as u64);
            let which = rng.below(7);
            let (kind, text) = match which {
                6 => {
                    // lines that start with characters the lexer does not take for blanks (form feed, vertical tab,
                    // no-break space, ideographic space), tabs, and CR/LF line ends with an error at the end of a line
                    let odd = ['\u{c}', '\u{b}', '\u{a0}', '\u{3000}', '\u{2003}'];
                    let crlf = rng.chance(0.5);
                    let mut lines = vec!["main:".to_string()];
                    for _ in 0..2 + rng.below(4) {
                        lines.push(match rng.below(6) {
                            0 => format!("{}    addi t0, t0, 1", odd[rng.below(odd.len())]),
                            1 => format!("  {}{}li t1, 2", odd[rng.below(odd.len())], odd[rng.below(odd.len())]),
                            2 => "    addi t0, t0".to_string(),
                            3 => format!("\t{}\taddi t2, t2, 1", odd[rng.below(odd.len())]),
                            4 => "\t\tadd t3, t3".to_string(),
                            _ => "    addi t4, t4, 1".to_string(),
                        });
                    }
                    lines.push("    li a7, 10".into());
                    lines.push("    ecall".into());
                    ("odd-white-space", lines.join(if crlf { "\r\n" } else { "\n" }) + if crlf { "\r\n" } else { "\n" })
                }
                0 | 1 => {
                    let inj = ALL_INJECT[rng.below(ALL_INJECT.len())];
                    let g = gen::generate(&mut rng, &Profile::conforming(), Some(inj));
                    let st = Style::random(&mut rng);
                    ("planted-violation", print(&g.prog, &st, &mut Rng::new(k as u64)).text)
                }
                2 => {
                    let g = gen::generate(&mut rng, &Profile::wild(), None);
                    let mut st = Style::plain();
                    st.indent = 1;
                    ("wild-tab-indented", print(&g.prog, &st, &mut Rng::new(1)).text)
                }
                3 => {
                    // parse errors mixed with lints
                    let g = gen::generate(&mut rng, &Profile::wild(), None);
                    let t = print(&g.prog, &Style::plain(), &mut Rng::new(1)).text;
                    let mut lines: Vec<String> = t.lines().map(str::to_string).collect();
                    for _ in 0..2 {
                        let i = rng.below(lines.len());
                        if lines[i].starts_with("    ") && !lines[i].trim_start().starts_with('.') {
                            let d: Defect = DEFECTS[rng.below(DEFECTS.len())];
                            lines[i] = d.apply(&lines[i], &mut rng);
                        }
                    }
                    ("parse-errors", lines.join("\n") + "\n")
                }
                4 => {
                    let ss = shapes::failure_shapes(&mut rng);
                    let s = &ss[rng.below(ss.len())];
                    ("analysis-error", print(&s.prog, &Style::plain(), &mut Rng::new(1)).text)
                }
                _ => {
                    let g = gen::generate(&mut rng, &Profile::conforming(), None);
                    ("clean", print(&g.prog, &Style::random(&mut rng), &mut Rng::new(1)).text)
                }
            };
            let files = match rng.below(10) {
                0..=2 => split_into_files(&text, &mut rng, 3),
                3 | 4 => {
                    // an include tree in which one snippet file is included two or three times
                    match super::c15::add_shared_snippet(&text, &mut rng) {
                        Some((t, sn, occ)) => {
                            acc.count("file_sets_with_a_file_included_several_times", 1);
                            super::c15::make_tree_with(&t, &mut rng, 2, Some((&sn, &occ))).files
                        }
                        None => vec![(FILE.to_string(), text)],
                    }
                }
                _ => vec![(FILE.to_string(), text)],
            };
            acc.note("file_set_kinds", format!("{kind}/{}", if files.len() > 1 { "multi-file" } else { "single-file" }));
            check_fileset(ctx, kind, &files, &mut rng, &mut acc);
            if k == 0 && shard == 0 {
                acc.sample(json!({"kind": kind, "files": files.iter().map(|(n, t)| (n.clone(), t.lines().count())).collect::<Vec<_>>()}));
            }
        }
        acc
    });
    rep.acc.merge(acc);
    // one severity per kind of diagnostic, over the whole run
    if let Some(set) = rep.acc.sets.get("title_severity").cloned() {
        let mut m: BTreeMap<String, Vec<String>> = BTreeMap::new();
        for e in set {
            if let Some((t, s)) = e.rsplit_once('|') {
                m.entry(t.to_string()).or_default().push(s.to_string());
            }
        }
        for (t, sevs) in m {
            if sevs.len() > 1 {
                rep.acc.violation(format!("C18|severity|{t}"), format!("diagnostic kind `{t}` appears with severities {sevs:?}"), json!({"title": t}));
            }
        }
    }
    rep.require("cli_runs", 500);
    rep.require("channel_pairs_equal", 200);
    rep.require("excerpts_checked", 100);
    rep.finish()
}
