//! C08 - instruction decoding, pseudo-expansion and constant folding follow RV32IM.
//!
//! Three finite tables written from the ISA manual / assembler manual:
//!  1. operand decoding of every mnemonic x operand form (fields, read/write sets, jump kind);
//!  2. behavioural equivalence: the decoded node(s) are executed by the reference machine and
//!     compared with the execution of the official expansion from the same states;
//!  3. constant folding (`MathOp::operate`) against the reference ALU on a boundary grid and
//!     random pairs, each call under `catch_unwind`.

use crate::ast::*;
use crate::decode::node_to_ins;
use crate::machine::{Machine, Stop};
use crate::report::{Acc, Ctx, Report};
use crate::rng::{hash64, Rng};
use crate::rva::{self, guarded};
use riscv_analysis::cfg::MathOp;
use riscv_analysis::parser::{Inst, InstructionProperties, ParserNode};
use serde_json::json;
use std::collections::BTreeSet;
use std::str::FromStr;

const REGS: [Reg; 9] = [0, 1, 2, 5, 8, 10, 17, 27, 31];

#[derive(Clone, Debug)]
enum Expect {
    /// the official meaning in base instructions
    Sem(Vec<Ins>),
    /// the text must be rejected with a parse error
    Reject,
    /// accepted, fields compared structurally (no RV32IM meaning modelled)
    Fields { kind: &'static str, regs: Vec<Reg>, imm: Option<i64> },
}

#[derive(Clone, Debug)]
struct Case {
    mn: &'static str,
    form: &'static str,
    text: String,
    expect: Expect,
}

fn rn(r: Reg, numeric: bool) -> String {
    if numeric {
        format!("x{r}")
    } else {
        ABI[r as usize].to_string()
    }
}

fn cases(rng: &mut Rng, thorough: bool) -> Vec<Case> {
    let mut v: Vec<Case> = Vec::new();
    // operand triples: every representative register in every position + random fill
    let mut triples: Vec<(Reg, Reg, Reg)> = Vec::new();
    for r in REGS {
        triples.push((r, *rng.pick(&REGS), *rng.pick(&REGS)));
        triples.push((*rng.pick(&REGS), r, *rng.pick(&REGS)));
        triples.push((*rng.pick(&REGS), *rng.pick(&REGS), r));
    }
    triples.push((10, 10, 10));
    triples.push((0, 0, 0));
    if thorough {
        for a in REGS {
            for b in REGS {
                for c in REGS {
                    triples.push((a, b, c));
                }
            }
        }
    }
    let imms12: Vec<i32> = vec![0, 1, -1, 2047, -2048, 5, 0x7f, -100];
    let shamts: Vec<i32> = vec![0, 1, 5, 16, 31];
    for &(a, b, c) in &triples {
        let num = rng.chance(0.5);
        let (sa, sb, sc) = (rn(a, num), rn(b, num), rn(c, num));
        for op in ALL_ALU {
            v.push(Case {
                mn: op.mnemonic(),
                form: "rd,rs1,rs2",
                text: format!("{} {sa}, {sb}, {sc}", op.mnemonic()),
                expect: Expect::Sem(vec![Ins::Alu { op, rd: a, rs1: b, rs2: c }]),
            });
        }
        for op in IMM_ALU {
            let pool = if matches!(op, AluOp::Sll | AluOp::Srl | AluOp::Sra) { &shamts } else { &imms12 };
            let imm = *rng.pick(pool);
            v.push(Case {
                mn: op.imm_mnemonic().unwrap(),
                form: "rd,rs1,imm",
                text: format!("{} {sa}, {sb}, {imm}", op.imm_mnemonic().unwrap()),
                expect: Expect::Sem(vec![Ins::AluI { op, rd: a, rs1: b, imm }]),
            });
        }
        for (c_, mnb) in ALL_COND.iter().map(|c| (*c, c.mnemonic())) {
            v.push(Case {
                mn: mnb,
                form: "rs1,rs2,label",
                text: format!("{mnb} {sa}, {sb}, target"),
                expect: Expect::Sem(vec![Ins::Branch { c: c_, rs1: a, rs2: b, label: "target".into() }]),
            });
        }
        // swapped-operand branch pseudos: bgt rs,rt == blt rt,rs ...
        for (mnp, c_) in [("bgt", Cond::Lt), ("ble", Cond::Ge), ("bgtu", Cond::Ltu), ("bleu", Cond::Geu)] {
            v.push(Case {
                mn: mnp,
                form: "rs,rt,label",
                text: format!("{mnp} {sa}, {sb}, target"),
                expect: Expect::Sem(vec![Ins::Branch { c: c_, rs1: b, rs2: a, label: "target".into() }]),
            });
        }
        // compare-with-zero branch pseudos
        for (mnp, c_, zero_first) in [
            ("beqz", Cond::Eq, false),
            ("bnez", Cond::Ne, false),
            ("bltz", Cond::Lt, false),
            ("bgez", Cond::Ge, false),
            ("blez", Cond::Ge, true),
            ("bgtz", Cond::Lt, true),
        ] {
            let (r1, r2) = if zero_first { (ZERO, a) } else { (a, ZERO) };
            v.push(Case {
                mn: mnp,
                form: "rs,label",
                text: format!("{mnp} {sa}, target"),
                expect: Expect::Sem(vec![Ins::Branch { c: c_, rs1: r1, rs2: r2, label: "target".into() }]),
            });
        }
        // two-operand pseudos
        v.push(Case { mn: "mv", form: "rd,rs", text: format!("mv {sa}, {sb}"), expect: Expect::Sem(vec![Ins::mv(a, b)]) });
        v.push(Case {
            mn: "neg",
            form: "rd,rs",
            text: format!("neg {sa}, {sb}"),
            expect: Expect::Sem(vec![Ins::Alu { op: AluOp::Sub, rd: a, rs1: ZERO, rs2: b }]),
        });
        v.push(Case {
            mn: "not",
            form: "rd,rs",
            text: format!("not {sa}, {sb}"),
            expect: Expect::Sem(vec![Ins::AluI { op: AluOp::Xor, rd: a, rs1: b, imm: -1 }]),
        });
        v.push(Case {
            mn: "seqz",
            form: "rd,rs",
            text: format!("seqz {sa}, {sb}"),
            expect: Expect::Sem(vec![Ins::AluI { op: AluOp::Sltu, rd: a, rs1: b, imm: 1 }]),
        });
        v.push(Case {
            mn: "snez",
            form: "rd,rs",
            text: format!("snez {sa}, {sb}"),
            expect: Expect::Sem(vec![Ins::Alu { op: AluOp::Sltu, rd: a, rs1: ZERO, rs2: b }]),
        });
        v.push(Case {
            mn: "sltz",
            form: "rd,rs",
            text: format!("sltz {sa}, {sb}"),
            expect: Expect::Sem(vec![Ins::Alu { op: AluOp::Slt, rd: a, rs1: b, rs2: ZERO }]),
        });
        v.push(Case {
            mn: "sgtz",
            form: "rd,rs",
            text: format!("sgtz {sa}, {sb}"),
            expect: Expect::Sem(vec![Ins::Alu { op: AluOp::Slt, rd: a, rs1: ZERO, rs2: b }]),
        });
        // (RARS: "sgez t1,t2  Set Greater than or Equal to Zero" = slt t1, t2, x0 ; xori t1, t1, 1.
        // There is no such thing as `sgez rs, label`)
        v.push(Case {
            mn: "sgez",
            form: "rd,rs",
            text: format!("sgez {sa}, {sb}"),
            expect: Expect::Sem(vec![Ins::Alu { op: AluOp::Slt, rd: a, rs1: b, rs2: ZERO }, Ins::AluI { op: AluOp::Xor, rd: a, rs1: a, imm: 1 }]),
        });
        v.push(Case { mn: "sgez", form: "rs,label", text: format!("sgez {sa}, target"), expect: Expect::Reject });
        // li / lui / la
        let big = rng.interesting_i32();
        v.push(Case { mn: "li", form: "rd,imm", text: format!("li {sa}, {big}"), expect: Expect::Sem(vec![Ins::li(a, big)]) });
        let up = rng.range(0, 0xfffff) as i32;
        v.push(Case {
            mn: "lui",
            form: "rd,imm20",
            text: format!("lui {sa}, {up}"),
            expect: Expect::Sem(vec![Ins::Lui { rd: a, imm: up }]),
        });
        v.push(Case {
            mn: "la",
            form: "rd,label",
            text: format!("la {sa}, target"),
            expect: Expect::Sem(vec![Ins::La { rd: a, label: "target".into() }]),
        });
        // loads and stores
        let off = *rng.pick(&imms12);
        for w in [LoadW::B, LoadW::Bu, LoadW::H, LoadW::Hu, LoadW::W] {
            let m = w.mnemonic();
            v.push(Case {
                mn: m,
                form: "rd,imm(rs1)",
                text: format!("{m} {sa}, {off}({sb})"),
                expect: Expect::Sem(vec![Ins::Load { w, rd: a, off, base: b }]),
            });
            v.push(Case {
                mn: m,
                form: "rd,(rs1)",
                text: format!("{m} {sa}, ({sb})"),
                expect: Expect::Sem(vec![Ins::Load { w, rd: a, off: 0, base: b }]),
            });
            if a != ZERO {
                v.push(Case {
                    mn: m,
                    form: "rd,label",
                    text: format!("{m} {sa}, target"),
                    expect: Expect::Sem(vec![
                        Ins::La { rd: a, label: "target".into() },
                        Ins::Load { w, rd: a, off: 0, base: a },
                    ]),
                });
            }
        }
        for w in [StoreW::B, StoreW::H, StoreW::W] {
            let m = w.mnemonic();
            v.push(Case {
                mn: m,
                form: "rs2,imm(rs1)",
                text: format!("{m} {sa}, {off}({sb})"),
                expect: Expect::Sem(vec![Ins::Store { w, rs2: a, off, base: b }]),
            });
            v.push(Case {
                mn: m,
                form: "rs2,(rs1)",
                text: format!("{m} {sa}, ({sb})"),
                expect: Expect::Sem(vec![Ins::Store { w, rs2: a, off: 0, base: b }]),
            });
            if c != ZERO && c != a {
                v.push(Case {
                    mn: m,
                    form: "rs2,label,rt",
                    text: format!("{m} {sa}, target, {sc}"),
                    expect: Expect::Sem(vec![
                        Ins::La { rd: c, label: "target".into() },
                        Ins::Store { w, rs2: a, off: 0, base: c },
                    ]),
                });
            }
        }
        // jumps
        v.push(Case {
            mn: "jal",
            form: "rd,label",
            text: format!("jal {sa}, target"),
            expect: Expect::Sem(vec![Ins::Jal { rd: a, label: "target".into() }]),
        });
        let jo = *rng.pick(&[0, 4, -4, 8]);
        v.push(Case {
            mn: "jalr",
            form: "rd,rs1,imm",
            text: format!("jalr {sa}, {sb}, {jo}"),
            expect: Expect::Sem(vec![Ins::Jalr { rd: a, rs1: b, imm: jo }]),
        });
        v.push(Case {
            mn: "jalr",
            form: "rd,imm(rs1)",
            text: format!("jalr {sa}, {jo}({sb})"),
            expect: Expect::Sem(vec![Ins::Jalr { rd: a, rs1: b, imm: jo }]),
        });
        v.push(Case {
            mn: "jalr",
            form: "rd,(rs1)",
            text: format!("jalr {sa}, ({sb})"),
            expect: Expect::Sem(vec![Ins::Jalr { rd: a, rs1: b, imm: 0 }]),
        });
        v.push(Case {
            mn: "jalr",
            form: "rs",
            text: format!("jalr {sa}"),
            expect: Expect::Sem(vec![Ins::Jalr { rd: RA, rs1: a, imm: 0 }]),
        });
        v.push(Case {
            mn: "jr",
            form: "rs",
            text: format!("jr {sa}"),
            expect: Expect::Sem(vec![Ins::Jalr { rd: ZERO, rs1: a, imm: 0 }]),
        });
        // csr (RARS operand order for the pseudos, as the tool targets RARS)
        let csr = *rng.pick(&[0u32, 4, 5, 0x40, 0x41, 0x42, 0x43, 0x44]);
        let cn = crate::print::csr_name(csr).unwrap_or("0");
        let csr = if crate::print::csr_name(csr).is_some() { csr } else { 0 };
        for (m, kind) in [("csrrw", "Csrrw"), ("csrrs", "Csrrs"), ("csrrc", "Csrrc")] {
            v.push(Case {
                mn: m,
                form: "rd,csr,rs1",
                text: format!("{m} {sa}, {cn}, {sb}"),
                expect: Expect::Fields { kind, regs: vec![a, b], imm: Some(i64::from(csr)) },
            });
        }
        let ci = rng.range(0, 31);
        for (m, kind) in [("csrrwi", "Csrrwi"), ("csrrsi", "Csrrsi"), ("csrrci", "Csrrci")] {
            v.push(Case {
                mn: m,
                form: "rd,csr,imm",
                text: format!("{m} {sa}, {cn}, {ci}"),
                expect: Expect::Fields { kind, regs: vec![a], imm: Some(i64::from(csr) * 1000 + ci) },
            });
        }
        v.push(Case {
            mn: "csrr",
            form: "rd,csr",
            text: format!("csrr {sa}, {cn}"),
            expect: Expect::Fields { kind: "Csrrs", regs: vec![a, ZERO], imm: Some(i64::from(csr)) },
        });
        for (m, kind) in [("csrw", "Csrrw"), ("csrs", "Csrrs"), ("csrc", "Csrrc")] {
            v.push(Case {
                mn: m,
                form: "rs,csr",
                text: format!("{m} {sa}, {cn}"),
                expect: Expect::Fields { kind, regs: vec![ZERO, a], imm: Some(i64::from(csr)) },
            });
        }
        for (m, kind) in [("csrwi", "Csrrwi"), ("csrsi", "Csrrsi"), ("csrci", "Csrrci")] {
            v.push(Case {
                mn: m,
                form: "csr,imm",
                text: format!("{m} {cn}, {ci}"),
                expect: Expect::Fields { kind, regs: vec![ZERO], imm: Some(i64::from(csr) * 1000 + ci) },
            });
        }
        // RV64-only spellings: supported mnemonics, fields only
        for m in ["addw", "sllw", "sraw", "srlw", "divw", "remw", "remuw"] {
            v.push(Case {
                mn: m,
                form: "rd,rs1,rs2",
                text: format!("{m} {sa}, {sb}, {sc}"),
                expect: Expect::Fields { kind: "Arith", regs: vec![a, b, c], imm: None },
            });
        }
        for m in ["addiw", "slliw", "srliw", "sraiw"] {
            v.push(Case {
                mn: m,
                form: "rd,rs1,imm",
                text: format!("{m} {sa}, {sb}, 3"),
                expect: Expect::Fields { kind: "IArith", regs: vec![a, b], imm: Some(3) },
            });
        }
        v.push(Case {
            mn: "lwu",
            form: "rd,imm(rs1)",
            text: format!("lwu {sa}, 8({sb})"),
            expect: Expect::Fields { kind: "Load", regs: vec![a, b], imm: Some(8) },
        });
        // auipc: the manual form is `auipc rd, imm`
        v.push(Case {
            mn: "auipc",
            form: "rd,imm20",
            text: format!("auipc {sa}, 1"),
            expect: Expect::Fields { kind: "IArith", regs: vec![a], imm: Some(1 << 12) },
        });
    }
    // no-operand and label-only forms
    v.push(Case { mn: "nop", form: "-", text: "nop".into(), expect: Expect::Sem(vec![Ins::addi(ZERO, ZERO, 0)]) });
    v.push(Case { mn: "ret", form: "-", text: "ret".into(), expect: Expect::Sem(vec![Ins::ret()]) });
    v.push(Case { mn: "ecall", form: "-", text: "ecall".into(), expect: Expect::Fields { kind: "Ecall", regs: vec![], imm: None } });
    v.push(Case { mn: "ebreak", form: "-", text: "ebreak".into(), expect: Expect::Fields { kind: "Ebreak", regs: vec![], imm: None } });
    v.push(Case { mn: "uret", form: "-", text: "uret".into(), expect: Expect::Fields { kind: "Uret", regs: vec![], imm: None } });
    for (m, rd) in [("j", ZERO), ("jal", RA), ("call", RA), ("b", ZERO)] {
        v.push(Case {
            mn: m,
            form: "label",
            text: format!("{m} target"),
            expect: Expect::Sem(vec![Ins::Jal { rd, label: "target".into() }]),
        });
    }
    // things that must be rejected
    for t in ["add a0, a1", "addi a0, a1, a2", "lw a0, a1, a2", "beq a0, a1", "li a0", "mv a0, 5", "jal 5", "add a0, a1, 5", "frobnicate a0"] {
        v.push(Case { mn: "(malformed)", form: "reject", text: t.into(), expect: Expect::Reject });
    }
    v
}

fn scaffold(seq: &[Ins]) -> Program {
    let mut p = Program::default();
    for i in seq {
        p.push(i.clone());
    }
    p.label("fall");
    p.push(Ins::addi(ZERO, ZERO, 0));
    p.push(Ins::addi(ZERO, ZERO, 0));
    p.label("target");
    p.push(Ins::addi(ZERO, ZERO, 0));
    p.push(Ins::addi(ZERO, ZERO, 0));
    p
}

#[derive(PartialEq, Debug)]
struct Outcome {
    x: [u32; 32],
    pc: usize,
    writes: Vec<(u32, u32, u32)>,
    csr: Vec<(u32, u32)>,
    stop: Option<Stop>,
}

fn execute(seq: &[Ins], seed: u64, fix: &[(Reg, u32)]) -> Outcome {
    let p = scaffold(seq);
    let flat = p.flatten();
    let mut m = Machine::new(&flat, seed, 100);
    m.frameless = true;
    for (r, v) in fix {
        if *r != 0 {
            m.x[*r as usize] = *v;
        }
    }
    let mut writes = Vec::new();
    let mut stop = None;
    for k in 0..seq.len() {
        if m.pc != k {
            break; // control left the sequence
        }
        let ev = m.step();
        if let Some(w) = ev.mem_write {
            writes.push(w);
        }
        if ev.stop.is_some() {
            stop = ev.stop;
            break;
        }
    }
    let mut csr: Vec<(u32, u32)> = m.csr.iter().map(|(a, b)| (*a, *b)).collect();
    csr.sort_unstable();
    Outcome { x: m.x, pc: m.pc, writes, csr, stop }
}

fn arch_rw(seq: &[Ins]) -> (BTreeSet<Reg>, BTreeSet<Reg>) {
    let mut reads = BTreeSet::new();
    let mut writes: BTreeSet<Reg> = BTreeSet::new();
    for i in seq {
        for r in i.reads() {
            if r != 0 && !writes.contains(&r) {
                reads.insert(r);
            }
        }
        if let Some(w) = i.writes() {
            if w != 0 {
                writes.insert(w);
            }
        }
    }
    (reads, writes)
}

fn tool_rw(nodes: &[ParserNode]) -> (BTreeSet<Reg>, BTreeSet<Reg>) {
    let mut reads = BTreeSet::new();
    let mut writes: BTreeSet<Reg> = BTreeSet::new();
    for n in nodes {
        for r in n.reads_from() {
            let r = r.get().to_num();
            if r != 0 && !writes.contains(&r) {
                reads.insert(r);
            }
        }
        if let Some(w) = n.writes_to() {
            let w = w.get().to_num();
            if w != 0 {
                writes.insert(w);
            }
        }
    }
    (reads, writes)
}

fn fields_of(n: &ParserNode) -> (String, Vec<Reg>, Option<i64>) {
    use crate::decode::reg;
    match n {
        ParserNode::Arith(a) => ("Arith".into(), vec![reg(a.rd.get()), reg(a.rs1.get()), reg(a.rs2.get())], None),
        ParserNode::IArith(a) => (
            "IArith".into(),
            if matches!(a.inst.get(), riscv_analysis::parser::IArithType::Auipc) {
                vec![reg(a.rd.get())]
            } else {
                vec![reg(a.rd.get()), reg(a.rs1.get())]
            },
            Some(i64::from(a.imm.get().value())),
        ),
        ParserNode::Load(l) => ("Load".into(), vec![reg(l.rd.get()), reg(l.rs1.get())], Some(i64::from(l.imm.get().value()))),
        ParserNode::Csr(c) => (
            format!("{:?}", c.inst.get()),
            vec![reg(c.rd.get()), reg(c.rs1.get())],
            Some(i64::from(c.csr.get().value())),
        ),
        ParserNode::CsrI(c) => (
            format!("{:?}", c.inst.get()),
            vec![reg(c.rd.get())],
            Some(i64::from(c.csr.get().value()) * 1000 + i64::from(c.imm.get().value())),
        ),
        ParserNode::Basic(b) => (format!("{:?}", b.inst.get()), vec![], None),
        other => (format!("{other:?}").chars().take(12).collect(), vec![], None),
    }
}

fn check_case(c: &Case, acc: &mut Acc, rng: &mut Rng, states: usize) {
    acc.evaluations += 1;
    acc.note("mnemonic_forms", format!("{} {}", c.mn, c.form));
    let text = format!("{}\n", c.text);
    let parsed = guarded(|| rva::parse_only(rva::MemReader::single("main.s", &text), "main.s"));
    let (_, nodes, errs) = match parsed {
        Ok(x) => x,
        Err(p) => {
            acc.violation(
                format!("C08|decode|{}|panic", c.mn),
                format!("parsing `{}` panics at {}: {}", c.text, p.site(), p.msg),
                json!({"text": c.text}),
            );
            return;
        }
    };
    let nodes: Vec<ParserNode> = nodes.into_iter().filter(|n| !matches!(n, ParserNode::ProgramEntry(_))).collect();
    // the same line as the very end of a file (no line break behind it), and in front of a comment:
    // what it is decoded into must not depend on what follows it
    for (where_, t) in [("at-end-of-file", c.text.clone()), ("before-a-comment", format!("{} # c\n", c.text)), ("after-a-label", format!("here:\n{}\n", c.text))] {
        if let Ok((_, n2, e2)) = guarded(|| rva::parse_only(rva::MemReader::single("main.s", &t), "main.s")) {
            let n2: Vec<String> = n2.iter().filter(|n| !matches!(n, ParserNode::ProgramEntry(_) | ParserNode::Label(_))).map(|n| format!("{n}")).collect();
            let n1: Vec<String> = nodes.iter().map(|n| format!("{n}")).collect();
            acc.count("context_variants_compared", 1);
            if n1 != n2 || errs.is_empty() != e2.is_empty() {
                acc.violation(
                    format!("C08|decode|{}|context|{where_}", c.mn),
                    format!("`{}` is decoded as {n1:?} ({} errors) on a line of its own but as {n2:?} ({} errors) {where_}", c.text, errs.len(), e2.len()),
                    json!({"text": c.text, "variant": t}),
                );
            }
        }
    }
    match &c.expect {
        Expect::Reject => {
            acc.count("reject_cases", 1);
            if errs.is_empty() {
                acc.violation(
                    "C08|decode|malformed|accepted",
                    format!("malformed line `{}` is accepted without a parse error", c.text),
                    json!({"text": c.text}),
                );
            }
        }
        Expect::Fields { kind, regs, imm } => {
            acc.count("field_cases", 1);
            if !errs.is_empty() || nodes.len() != 1 {
                acc.violation(
                    format!("C08|decode|{}|rejected", c.mn),
                    format!("`{}` ({} {}) is rejected: {}", c.text, c.mn, c.form, errs.first().map(|e| e.to_string()).unwrap_or_default()),
                    json!({"text": c.text}),
                );
                return;
            }
            let (k, r, i) = fields_of(&nodes[0]);
            let ok = k == *kind && r == *regs && (imm.is_none() || i == *imm);
            if !ok {
                acc.violation(
                    format!("C08|decode|{}|fields", c.mn),
                    format!("`{}` decoded as {k} regs {r:?} imm {i:?}, expected {kind} {regs:?} {imm:?}", c.text),
                    json!({"text": c.text}),
                );
            }
            acc.nontrivial.insert(hash64(&c.text));
        }
        Expect::Sem(seq) => {
            acc.count("semantic_cases", 1);
            if !errs.is_empty() || nodes.is_empty() {
                acc.violation(
                    format!("C08|decode|{}|rejected", c.mn),
                    format!("`{}` ({} {}) is rejected: {}", c.text, c.mn, c.form, errs.first().map(|e| e.to_string()).unwrap_or_default()),
                    json!({"text": c.text}),
                );
                return;
            }
            let decoded: Option<Vec<Ins>> = nodes.iter().map(node_to_ins).collect();
            let Some(decoded) = decoded else {
                acc.violation(
                    format!("C08|decode|{}|not-an-instruction", c.mn),
                    format!("`{}` decoded into something without RV32IM meaning: {:?}", c.text, nodes),
                    json!({"text": c.text}),
                );
                return;
            };
            // architectural read / write sets
            let (er, ew) = arch_rw(seq);
            let (tr, tw) = tool_rw(&nodes);
            if er != tr || ew != tw {
                acc.violation(
                    format!("C08|rw|{}", c.mn),
                    format!("`{}`: tool says reads {tr:?} writes {tw:?}; architecturally reads {er:?} writes {ew:?}", c.text),
                    json!({"text": c.text}),
                );
            }
            // jump classification
            let last = nodes.last().unwrap();
            let e_last = seq.last().unwrap();
            let e_call = matches!(e_last, Ins::Jal { rd: 1, .. });
            let e_jump = matches!(e_last, Ins::Branch { .. }) || matches!(e_last, Ins::Jal { rd, .. } if *rd != 1);
            let e_ret = e_last.is_ret();
            if last.calls_to().is_some() != e_call
                || last.jumps_to().is_some() != e_jump
                || last.is_return() != e_ret
            {
                acc.violation(
                    format!("C08|class|{}", c.mn),
                    format!("`{}`: calls_to/jumps_to/is_return = {}/{}/{} expected {e_call}/{e_jump}/{e_ret}", c.text, last.calls_to().is_some(), last.jumps_to().is_some(), last.is_return()),
                    json!({"text": c.text}),
                );
            }
            // behaviour from many states
            let mut differ = None;
            for k in 0..states {
                let seed = rng.next_u64();
                // make indirect jumps land inside the scaffold
                let mut fix: Vec<(Reg, u32)> = Vec::new();
                if let Some(Ins::Jalr { rs1, imm, .. }) = seq.last() {
                    let tgt = TEXT_BASE + 4 * (seq.len() as u32 + 2);
                    fix.push((*rs1, tgt.wrapping_sub(*imm as u32)));
                }
                // boundary operand values in a few states
                if k < 6 {
                    let pool = [0u32, 1, u32::MAX, 0x8000_0000, 0x7fff_ffff, 2];
                    for r in 1..32u8 {
                        if !fix.iter().any(|(f, _)| *f == r) {
                            fix.push((r, pool[(k + r as usize) % pool.len()]));
                        }
                    }
                    if let Some(Ins::Jalr { rs1, imm, .. }) = seq.last() {
                        let tgt = TEXT_BASE + 4 * (seq.len() as u32 + 2);
                        fix.retain(|(r, _)| r != rs1);
                        fix.push((*rs1, tgt.wrapping_sub(*imm as u32)));
                    }
                }
                let a = execute(seq, seed, &fix);
                let b = execute(&decoded, seed, &fix);
                acc.count("executions_compared", 1);
                if a != b {
                    differ = Some((seed, a, b));
                    break;
                }
            }
            if let Some((seed, a, b)) = differ {
                let what = if a.pc != b.pc {
                    format!("different control transfer (pc {} vs {})", a.pc, b.pc)
                } else if a.x != b.x {
                    let r = (0..32).find(|r| a.x[*r] != b.x[*r]).unwrap();
                    format!("different {} ({:#x} vs {:#x})", ABI[r], a.x[r], b.x[r])
                } else {
                    "different memory/csr effect".to_string()
                };
                acc.violation(
                    format!("C08|equiv|{}", c.mn),
                    format!("`{}` is decoded as {:?}, official meaning {:?}: {what}", c.text, decoded, seq),
                    json!({"text": c.text, "machine_seed": seed}),
                );
            }
            acc.nontrivial.insert(hash64(&c.text));
            if acc.samples.len() < 3 && rng.chance(0.01) {
                acc.sample(json!({"text": c.text, "decoded": format!("{decoded:?}"), "expected": format!("{seq:?}")}));
            }
        }
    }
}

fn tool_op(op: AluOp) -> Option<MathOp> {
    // through the tool's own mnemonic -> operator mapping
    Inst::from_str(op.mnemonic()).ok()?.math_op()
}

fn operand_class(op: AluOp, x: i32, y: i32) -> &'static str {
    match op {
        AluOp::Sll | AluOp::Srl | AluOp::Sra if !(0..32).contains(&y) => "shamt-outside-0..31",
        AluOp::Div | AluOp::Rem if y == 0 => "div-by-zero",
        AluOp::Div | AluOp::Rem if x == i32::MIN && y == -1 => "min-by-minus-one",
        AluOp::Divu | AluOp::Remu if y == 0 => "div-by-zero",
        AluOp::Add if x.checked_add(y).is_none() => "signed-overflow",
        AluOp::Sub if x.checked_sub(y).is_none() => "signed-overflow",
        AluOp::Mul if x.checked_mul(y).is_none() => "signed-overflow",
        AluOp::Mulhsu if y < 0 => "negative-unsigned-operand",
        AluOp::Mulhu if x < 0 || y < 0 => "negative-unsigned-operand",
        _ => "ordinary",
    }
}

fn check_fold(op: AluOp, x: i32, y: i32, acc: &mut Acc) {
    acc.evaluations += 1;
    acc.count("fold_pairs", 1);
    let Some(t) = tool_op(op) else {
        acc.violation(
            format!("C08|fold|{}|unmapped", op.mnemonic()),
            format!("{} has no folding operator", op.mnemonic()),
            json!({"op": op.mnemonic()}),
        );
        return;
    };
    let want = op.eval(x as u32, y as u32) as i32;
    let cls = operand_class(op, x, y);
    acc.note("fold_operand_classes", format!("{} {cls}", op.mnemonic()));
    match guarded(|| t.operate(x, y)) {
        Ok(got) if got == want => {}
        Ok(got) => acc.violation(
            format!("C08|fold|{}|value|{cls}", op.mnemonic()),
            format!("folding {} {x}, {y} gives {got}, RV32IM gives {want}", op.mnemonic()),
            json!({"op": op.mnemonic(), "x": x, "y": y}),
        ),
        Err(p) => acc.violation(
            format!("C08|fold|{}|panic|{cls}", op.mnemonic()),
            format!("folding {} {x}, {y} panics ({}): {}", op.mnemonic(), p.site(), p.msg),
            json!({"op": op.mnemonic(), "x": x, "y": y}),
        ),
    }
}

/// Table 4: constant folding as the *analysis* performs it (not only `MathOp::operate`): chunks of
/// `li t0, x; li t1, y; op t2, t0, t1` (and the forms with the zero register as an operand and with an
/// immediate) are analysed, and wherever the analysis claims a constant for the result it must be
/// the RV32IM value.
pub struct Probe {
    ins_index: usize,
    text: String,
    /// reference result; None = the result depends on a value the analysis cannot know
    want: Option<i32>,
    class: &'static str,
    form: &'static str,
}

/// The folding table of one operator as a program (also linted by C06: every boundary pair reaches
/// the constant folder through the whole pipeline).
pub fn fold_table_program(op: AluOp) -> (Program, Vec<Probe>) {
    let (p, probes) = fold_table(&op);
    (p, probes)
}

fn check_pipeline_folds(ops: &[AluOp], acc: &mut Acc) {
    use crate::graph::{GraphView, Val};
    for op in ops {
        let (p, probes) = fold_table(op);
        let pr = crate::print::print(&p, &crate::print::Style::base(), &mut Rng::new(1));
        acc.evaluations += 1;
        let a = match super::common::analyze(&pr.text) {
            Ok(a) => a,
            Err(pi) => {
                acc.violation(format!("C08|pipeline-fold|{}|panic", op.mnemonic()), format!("analysing the folding table of {} panics at {}: {}", op.mnemonic(), pi.site(), pi.msg), json!({"op": op.mnemonic()}));
                continue;
            }
        };
        let Ok(cfg) = &a.cfg else {
            acc.count("pipeline_fold_tables_not_analysed", 1);
            continue;
        };
        let gv = GraphView::of(cfg);
        let by_line: std::collections::HashMap<usize, &crate::graph::NodeView> = gv.nodes.iter().filter(|n| matches!(n.kind, "Arith" | "IArith" | "Basic" | "UpperArith")).map(|n| (n.line, n)).collect();
        for pb in &probes {
            let line = pr.ins[pb.ins_index].line;
            let Some(node) = by_line.get(&line) else { continue };
            acc.count("pipeline_fold_probes", 1);
            match (node.reg_out.get(&7), pb.want) {
                (Some(Val::Const(c)), Some(want)) => {
                    acc.count("pipeline_fold_claims", 1);
                    acc.note("pipeline_fold_forms", format!("{} {}", op.mnemonic(), pb.form));
                    if *c != want {
                        acc.violation(
                            format!("C08|pipeline-fold|{}|{}|{}", op.mnemonic(), pb.form, pb.class),
                            format!("the analysis claims {c} for `{}`, RV32IM gives {want}", pb.text),
                            json!({"op": op.mnemonic(), "instruction": pb.text, "claimed": c, "reference": want}),
                        );
                    }
                }
                (Some(Val::Const(c)), None) => {
                    acc.count("pipeline_fold_unknown_operand_probes", 1);
                    acc.violation(
                        format!("C08|pipeline-fold|{}|{}|constant-from-unknown", op.mnemonic(), pb.form),
                        format!("the analysis claims the constant {c} for `{}`, whose result depends on a value it cannot know", pb.text),
                        json!({"op": op.mnemonic(), "instruction": pb.text, "claimed": c}),
                    );
                }
                (_, None) => acc.count("pipeline_fold_unknown_operand_probes", 1),
                _ => acc.count("pipeline_fold_no_claim", 1),
            }
        }
        acc.count("pipeline_fold_tables", 1);
    }
}

fn fold_table(op: &AluOp) -> (Program, Vec<Probe>) {
    {
        let mut probes: Vec<Probe> = Vec::new();
        let mut p = Program::default();
        p.label("main");
        let mut n_ins = 0usize;
        let mut push = |p: &mut Program, i: Ins| {
            p.push(i);
            n_ins += 1;
            n_ins - 1
        };
        let has_imm = IMM_ALU.contains(op);
        let is_shift = matches!(op, AluOp::Sll | AluOp::Srl | AluOp::Sra);
        for x in GRID {
            for y in GRID {
                let want = op.eval(x as u32, y as u32) as i32;
                let cls = operand_class(*op, x, y);
                // register-register
                push(&mut p, Ins::li(5, x));
                push(&mut p, Ins::li(6, y));
                let k = push(&mut p, Ins::Alu { op: *op, rd: 7, rs1: 5, rs2: 6 });
                probes.push(Probe { ins_index: k, text: format!("{} t2, t0(={x}), t1(={y})", op.mnemonic()), want: Some(want), class: cls, form: "reg-reg" });
                if y == 0 {
                    let k = push(&mut p, Ins::Alu { op: *op, rd: 7, rs1: 5, rs2: ZERO });
                    probes.push(Probe { ins_index: k, text: format!("{} t2, t0(={x}), zero", op.mnemonic()), want: Some(want), class: cls, form: "reg-zero" });
                }
                if x == 0 {
                    let k = push(&mut p, Ins::Alu { op: *op, rd: 7, rs1: ZERO, rs2: 6 });
                    probes.push(Probe { ins_index: k, text: format!("{} t2, zero, t1(={y})", op.mnemonic()), want: Some(want), class: cls, form: "zero-reg" });
                }
                let imm_ok = if is_shift { (0..32).contains(&y) } else { (-2048..2048).contains(&y) };
                if has_imm && imm_ok {
                    let k = push(&mut p, Ins::AluI { op: *op, rd: 7, rs1: 5, imm: y });
                    probes.push(Probe { ins_index: k, text: format!("{}i t2, t0(={x}), {y}", op.mnemonic()), want: Some(want), class: cls, form: "reg-imm" });
                    if x == 0 {
                        let k = push(&mut p, Ins::AluI { op: *op, rd: 7, rs1: ZERO, imm: y });
                        probes.push(Probe { ins_index: k, text: format!("{}i t2, zero, {y}", op.mnemonic()), want: Some(want), class: cls, form: "zero-imm" });
                    }
                }
            }
        }
        // ---- one operand unknown (loaded from memory): a constant may only be claimed if the
        // result is the same for every value of that operand
        push(&mut p, Ins::La { rd: 28, label: "cell".into() });
        push(&mut p, Ins::lw(28, 0, 28));
        let samples = [0u32, 1, 0xffff_ffff, 0x8000_0000, 0x7fff_ffff, 12345, 0x5555_5555];
        let independent = |f: &dyn Fn(u32) -> u32| -> Option<i32> {
            let first = f(samples[0]);
            if samples.iter().all(|v| f(*v) == first) { Some(first as i32) } else { None }
        };
        for x in [0, 1, -1, 5, i32::MIN, 31, 32] {
            push(&mut p, Ins::li(5, x));
            let k = push(&mut p, Ins::Alu { op: *op, rd: 7, rs1: 5, rs2: 28 });
            probes.push(Probe { ins_index: k, text: format!("{} t2, t0(={x}), t3(unknown)", op.mnemonic()), want: independent(&|u| op.eval(x as u32, u)), class: "unknown-operand", form: "reg-unknown" });
            let k = push(&mut p, Ins::Alu { op: *op, rd: 7, rs1: 28, rs2: 5 });
            probes.push(Probe { ins_index: k, text: format!("{} t2, t3(unknown), t0(={x})", op.mnemonic()), want: independent(&|u| op.eval(u, x as u32)), class: "unknown-operand", form: "unknown-reg" });
        }
        let k = push(&mut p, Ins::Alu { op: *op, rd: 7, rs1: ZERO, rs2: 28 });
        probes.push(Probe { ins_index: k, text: format!("{} t2, zero, t3(unknown)", op.mnemonic()), want: independent(&|u| op.eval(0, u)), class: "unknown-operand", form: "zero-unknown" });
        let k = push(&mut p, Ins::Alu { op: *op, rd: 7, rs1: 28, rs2: ZERO });
        probes.push(Probe { ins_index: k, text: format!("{} t2, t3(unknown), zero", op.mnemonic()), want: independent(&|u| op.eval(u, 0)), class: "unknown-operand", form: "unknown-zero" });
        let k = push(&mut p, Ins::Alu { op: *op, rd: 7, rs1: 28, rs2: 28 });
        probes.push(Probe { ins_index: k, text: format!("{} t2, t3(unknown), t3", op.mnemonic()), want: independent(&|u| op.eval(u, u)), class: "unknown-operand", form: "unknown-same" });
        if has_imm {
            for y in if is_shift { vec![0, 1, 31] } else { vec![0, 1, -1, 2047, -2048] } {
                let k = push(&mut p, Ins::AluI { op: *op, rd: 7, rs1: 28, imm: y });
                probes.push(Probe { ins_index: k, text: format!("{}i t2, t3(unknown), {y}", op.mnemonic()), want: independent(&|u| op.eval(u, y as u32)), class: "unknown-operand", form: "unknown-imm" });
            }
        }
        // ---- lui (once per table; it has no operator of its own)
        if *op == AluOp::Add {
            for imm in [0, 1, 2, 0x7ffff, 0x80000, 0xfffff, 0x12345, 0x800] {
                let k = push(&mut p, Ins::Lui { rd: 7, imm });
                probes.push(Probe { ins_index: k, text: format!("lui t2, {imm:#x}"), want: Some(((imm as u32) << 12) as i32), class: "upper-immediate", form: "lui" });
            }
        }
        p.push(Ins::mv(A0, 7));
        p.push(Ins::li(A7, 1));
        p.push(Ins::Ecall);
        p.push(Ins::li(A7, 10));
        p.push(Ins::Ecall);
        p.lines.push(Line::SecData);
        p.label("cell");
        p.lines.push(Line::Data(Data::Word(vec![7])));
        (p, probes)
    }
}

const GRID: [i32; 24] = [
    0, 1, -1, 2, -2, 3, 31, 32, 33, 63, 64, -31, -32, -33, 0x7ff, -0x800, 0xffff, 0x10000, i32::MAX,
    i32::MIN, i32::MAX - 1, i32::MIN + 1, 0x5555_5555, -0x5555_5556,
];

pub fn run(ctx: &Ctx) -> i32 {
    let mut rep = Report::new(
        ctx,
        "table 1/2: every mnemonic x operand form printed with representative registers/immediates, parsed by the real parser, \
         decoded nodes executed on the reference machine against the official expansion from boundary + random states; every form is also decoded as the very end of a file, in front of a comment and behind a label (same nodes expected); \
         table 3: MathOp::operate vs reference RV32IM ALU on the full 24x24 boundary grid per operator + random pairs; \
         table 4: the same grid through the whole analysis (`li; li; op` chunks with register, zero-register and immediate operand forms): every constant the analysis claims for a result must be the RV32IM value; with one operand loaded from memory a constant may only be claimed if the result does not depend on that operand; `lui` with boundary operands. \
         distinct_nontrivial = distinct instruction texts decoded and compared + (it does not count fold pairs)",
    );
    rep.assume("the reference ALU and expansions in the harness are written from the RISC-V unprivileged spec / assembler manual");
    rep.assume("CSR pseudo-instructions are judged against the RARS operand order (register first), which is the assembler the tool targets");
    let thorough = ctx.tier == crate::report::Tier::Thorough;
    let states = if thorough { 64 } else { 16 };
    let random_pairs: u64 = if thorough { 20_000_000 } else { 2_000_000 };
    let jobs = ctx.jobs;
    // ---- tables 1 and 2 (sharded over the case list)
    let mut seed_rng = Rng::derive(ctx.seed, 8, 0);
    let all = cases(&mut seed_rng, thorough);
    let n_cases = all.len();
    let acc = crate::report::run_sharded(ctx, |shard| {
        let mut acc = Acc::new();
        let mut rng = Rng::derive(ctx.seed, 8, 100 + shard as u64);
        for (k, c) in all.iter().enumerate() {
            if k % jobs == shard {
                check_case(c, &mut acc, &mut rng, states);
            }
        }
        // ---- table 3
        for (oi, op) in ALL_ALU.iter().enumerate() {
            if oi % jobs != shard {
                continue;
            }
            for x in GRID {
                for y in GRID {
                    check_fold(*op, x, y, &mut acc);
                }
            }
            acc.count("fold_grid_complete_operators", 1);
            check_pipeline_folds(&[*op], &mut acc);
            let per_op = random_pairs / ALL_ALU.len() as u64;
            for _ in 0..per_op {
                let x = rng.interesting_i32();
                let y = rng.interesting_i32();
                check_fold(*op, x, y, &mut acc);
            }
        }
        acc
    });
    rep.acc.merge(acc);
    rep.extra.insert("case_table_size".into(), json!(n_cases));
    rep.extra.insert(
        "exhaustive_subspaces".into(),
        json!([
            {"name": "mnemonic x operand-form table", "exhaustive": true},
            {"name": "18 folding operators x 24x24 boundary grid", "exhaustive": true}
        ]),
    );
    rep.require("semantic_cases", 500);
    rep.require("fold_grid_complete_operators", 18);
    rep.require("pipeline_fold_tables", 18);
    rep.require("pipeline_fold_claims", 5000);
    rep.require("pipeline_fold_unknown_operand_probes", 200);
    rep.acc.sample(json!({"fold": "sll 1, 32 -> reference 1 (shift amount masked to 5 bits)"}));
    rep.finish()
}
