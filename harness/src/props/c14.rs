//! C14 - renaming labels or same-class registers only renames the diagnostics.

use super::common::*;
use crate::ast::*;
use crate::gen::{self, Profile, ALL_INJECT};
use crate::print::{print, Style};
use crate::report::{run_sharded, Acc, Ctx, Report};
use crate::rng::{hash64, Rng};
use serde_json::json;
use std::collections::{BTreeMap, HashMap};

fn rename_program(p: &Program, regmap: &[Reg; 32], labelmap: &HashMap<String, String>) -> Program {
    let rf = |r: Reg| regmap[r as usize];
    let lf = |l: &str| labelmap.get(l).cloned().unwrap_or_else(|| l.to_string());
    Program {
        lines: p
            .lines
            .iter()
            .map(|l| match l {
                Line::Label(s) => Line::Label(lf(s)),
                Line::Ins(i) => Line::Ins(i.map_regs(&rf).map_label(&lf)),
                other => other.clone(),
            })
            .collect(),
    }
}

/// Titles, descriptions and related notes with every identifier mapped through the renaming must be
/// the renamed program's texts (as multisets). Returns a first pair of texts that differ.
fn texts_differ(d0: &[crate::rva::Diag], d1: &[crate::rva::Diag], labelmap: &HashMap<String, String>, regmap: &[Reg; 32]) -> Option<(String, String)> {
    let map_word = |w: &str| -> String {
        if let Some(l) = labelmap.get(w) {
            return l.clone();
        }
        if let Some(r) = ABI.iter().position(|n| *n == w) {
            return ABI[regmap[r] as usize].to_string();
        }
        w.to_string()
    };
    let map_text = |t: &str| -> String {
        let mut out = String::new();
        let mut word = String::new();
        for ch in t.chars().chain(std::iter::once(' ')) {
            if ch.is_alphanumeric() || ch == '_' {
                word.push(ch);
            } else {
                if !word.is_empty() {
                    out.push_str(&map_word(&word));
                    word.clear();
                }
                out.push(ch);
            }
        }
        out.pop();
        out
    };
    let text = |d: &crate::rva::Diag| format!("{} / {} / {}", d.title, d.desc, d.related.iter().map(|r| r.2.clone()).collect::<Vec<_>>().join(" ; "));
    let mut t0: Vec<String> = d0.iter().map(|d| map_text(&text(d))).collect();
    let mut t1: Vec<String> = d1.iter().map(text).collect();
    t0.sort();
    t1.sort();
    if t0 == t1 {
        return None;
    }
    let a = t0.iter().find(|t| !t1.contains(t)).cloned().unwrap_or_default();
    let b = t1.iter().find(|t| !t0.contains(t)).cloned().unwrap_or_default();
    Some((a, b))
}

fn fresh_label(rng: &mut Rng, k: usize) -> String {
    const HEAD: &[u8] = b"abcdefghijklmnopqrstuvwxyzABCDEFGHIJKLMNOPQRSTUVWXYZ_";
    const TAIL: &[u8] = b"abcdefghijklmnopqrstuvwxyzABCDEFGHIJKLMNOPQRSTUVWXYZ_0123456789";
    let mut s = String::new();
    s.push(char::from(HEAD[rng.below(HEAD.len())]));
    for _ in 0..rng.below(10) {
        s.push(char::from(TAIL[rng.below(TAIL.len())]));
    }
    // unique, and never a register / mnemonic / directive / csr name
    format!("{s}_q{k}")
}

pub fn run(ctx: &Ctx) -> i32 {
    let mut rep = Report::new(
        ctx,
        "each program (conforming, with a planted violation, or wild) is analysed, then all labels are renamed injectively to fresh identifiers and the temporaries \
         t0-t6 / saved registers s0-s11 are permuted (every transposition with a fixed register in the thorough tier, random full permutations otherwise); the renamed program \
         must get exactly the original multiset of (kind, instruction index, register) with registers mapped through the permutation. distinct_nontrivial = distinct (program, renaming) pairs compared with >= 1 diagnostic or >= 30 instructions",
    );
    rep.assume("fp is s0; argument registers are not permuted (the property does not claim that)");
    let per_shard = ctx.tier.pick(25, 1500);
    let acc = run_sharded(ctx, |shard| {
        let mut acc = Acc::new();
        for k in 0..per_shard {
            let mut rng = Rng::derive(ctx.seed, 14_000 + shard as u64, k as u64);
            let (prof, inject) = match rng.below(5) {
                0 => (Profile::conforming(), None),
                // (the classes whose diagnostics name registers get more weight: that is what a
                // permutation can disturb)
                1 | 2 => (Profile::conforming(), Some(if rng.chance(0.45) { *rng.pick(&[gen::Inject::TempAfterCall, gen::Inject::TempAfterCall, gen::Inject::ReadUnassigned, gen::Inject::SavedNoRestore, gen::Inject::SavedUnsavedWrite]) } else { ALL_INJECT[rng.below(ALL_INJECT.len())] })),
                _ => (Profile::wild_surface(), None),
            };
            let mut g = gen::generate(&mut rng, &prof, inject);
            if k % 5 == 4 {
                // hand-written shapes: several labels on one entry, shared tails, trap handlers,
                // programs the analysis refuses (the error is a diagnostic like any other)
                let mut pool = crate::shapes::call_graph_shapes(&mut rng);
                pool.extend(crate::shapes::failure_shapes(&mut rng));
                pool.push(crate::shapes::shared_tail_family(&mut rng));
                pool.push(crate::shapes::trap_handler_family(&mut rng));
                // (trap handlers are the only users of some register tables: give them weight)
                let i = if rng.chance(0.4) { pool.len() - 1 } else { rng.below(pool.len()) };
                acc.note("shapes", pool[i].name);
                g.prog = pool.swap_remove(i).prog;
                g.base = g.prog.clone();
                g.site = None;
                g.funcs.clear();
            }
            let st = Style::plain();
            let c0 = Case { printed: print(&g.prog, &st, &mut Rng::new(1)), g: g.clone() };
            let Ok(a0) = analyze(&c0.printed.text) else {
                acc.count("base_analysis_panicked", 1);
                continue;
            };
            let d0 = diag_multiset(&c0, &a0.all_diags());
            let Ok(a0b) = analyze(&c0.printed.text) else { continue };
            if diag_multiset(&c0, &a0b.all_diags()) != d0 {
                acc.count("nondeterministic_base_skipped", 1);
                continue;
            }
            acc.count("base_diagnostics", d0.values().sum::<usize>() as u64);
            // ---- renamings to try
            let mut trials: Vec<(&'static str, [Reg; 32], bool)> = Vec::new();
            let id: [Reg; 32] = std::array::from_fn(|i| i as Reg);
            trials.push(("label", id, true));
            let mut perm_t = TEMPS.to_vec();
            rng.shuffle(&mut perm_t);
            let mut m = id;
            for (a, b) in TEMPS.iter().zip(perm_t.iter()) {
                m[*a as usize] = *b;
            }
            trials.push(("temp", m, false));
            let mut perm_s = SAVED.to_vec();
            rng.shuffle(&mut perm_s);
            let mut m = id;
            for (a, b) in SAVED.iter().zip(perm_s.iter()) {
                m[*a as usize] = *b;
            }
            trials.push(("saved", m, false));
            // one transposition per class, walking through all registers over the run
            let ti = (k + shard) % TEMPS.len();
            let mut m = id;
            m.swap(TEMPS[ti] as usize, TEMPS[(ti + 1 + k % 6) % TEMPS.len()] as usize);
            trials.push(("temp", m, rng.chance(0.3)));
            let si = (k + shard) % SAVED.len();
            let mut m = id;
            m.swap(SAVED[si] as usize, SAVED[(si + 1 + k % 11) % SAVED.len()] as usize);
            trials.push(("saved", m, rng.chance(0.3)));
            if k % 5 == 4 {
                // small hand-written programs: every rotation of the temporaries and of the saved
                // registers, so that each register of a class takes the place of every other one
                for r in 1..TEMPS.len() {
                    let mut m = id;
                    for (i, a) in TEMPS.iter().enumerate() {
                        m[*a as usize] = TEMPS[(i + r) % TEMPS.len()];
                    }
                    trials.push(("temp", m, false));
                }
                for r in 1..SAVED.len() {
                    let mut m = id;
                    for (i, a) in SAVED.iter().enumerate() {
                        m[*a as usize] = SAVED[(i + r) % SAVED.len()];
                    }
                    trials.push(("saved", m, false));
                }
            }
            for (class, regmap, rename_labels) in trials {
                acc.evaluations += 1;
                let mut labelmap = HashMap::new();
                if rename_labels {
                    let mut n = 0;
                    for l in &g.prog.lines {
                        if let Line::Label(s) = l {
                            n += 1;
                            labelmap.insert(s.clone(), fresh_label(&mut rng, n));
                        }
                    }
                    // one label may get a name that looks like something the analyzer uses itself
                    if rng.chance(0.25) {
                        let keys: Vec<String> = { let mut k: Vec<String> = labelmap.keys().cloned().collect(); k.sort(); k };
                        let fns: Vec<&String> = keys.iter().filter(|k| k.starts_with("fn_")).collect();
                        let pick = if !fns.is_empty() && rng.chance(0.7) { fns[rng.below(fns.len())].clone() } else { keys[rng.below(keys.len())].clone() };
                        // (also names that are register names in another case: registers are case-sensitive, `T0` is a label)
                        let odd = *rng.pick(&["__return__", "__return__", "return", "_start", "L0", "ret_", "a0_", "T0", "Sp", "A7", "RA", "X5", "S11", "Fp", "Gp", "T6"]);
                        // (injective: not a name the program already uses, defined or not)
                        if !c0.printed.text.contains(odd) {
                            labelmap.insert(pick, odd.to_string());
                            acc.count("renamings_with_a_reserved_looking_name", 1);
                        }
                    }
                }
                let p1 = rename_program(&g.prog, &regmap, &labelmap);
                let mut g1 = g.clone();
                g1.prog = p1;
                let c1 = Case { printed: print(&g1.prog, &st, &mut Rng::new(1)), g: g1 };
                let a1 = match analyze(&c1.printed.text) {
                    Ok(a) => a,
                    Err(p) => {
                        acc.violation(
                            format!("C14|{class}|panic|{}", p.site()),
                            format!("renamed program makes the analysis panic: {}", p.msg),
                            json!({"original": c0.printed.text, "renamed": c1.printed.text}),
                        );
                        continue;
                    }
                };
                let d1 = diag_multiset(&c1, &a1.all_diags());
                // expected: original keys with registers and label names mapped
                let mut want: BTreeMap<DiagKey, usize> = BTreeMap::new();
                for ((code, at, reg), n) in &d0 {
                    let reg2 = if *reg >= 0 { i32::from(regmap[*reg as usize]) } else { *reg };
                    let at2 = match at.strip_prefix("label:") {
                        Some(l) => format!("label:{}", labelmap.get(l).cloned().unwrap_or_else(|| l.to_string())),
                        None => at.clone(),
                    };
                    *want.entry((code.clone(), at2, reg2)).or_insert(0) += n;
                }
                acc.count(&format!("compared:{class}"), 1);
                if !d0.is_empty() || g.prog.n_ins() >= 30 {
                    acc.nontrivial.insert(hash64(&c1.printed.text));
                }
                if let Some((key, n0, n1)) = multiset_diff(&want, &d1) {
                    let moved: Vec<String> = (0..32u8).filter(|r| regmap[*r as usize] != *r).map(|r| format!("{}->{}", ABI[r as usize], ABI[regmap[r as usize] as usize])).collect();
                    let regname = if key.2 >= 0 { ABI[key.2 as usize] } else { "-" };
                    acc.violation(
                        format!("C14|{class}|{}|{}", if rename_labels && class == "label" { "label" } else { regname }, key.0),
                        format!("after renaming ({}{}) the diagnostic {:?} is expected {n0}x but found {n1}x", moved.join(" "), if rename_labels { " +labels" } else { "" }, key),
                        json!({"original": c0.printed.text, "renamed": c1.printed.text}),
                    );
                } else if let Some((t0, t1)) = texts_differ(&a0.all_diags(), &a1.all_diags(), &labelmap, &regmap) {
                    // same kinds at the same places, but the wording is not the renamed wording
                    acc.violation(
                        format!("C14|{class}|text|{}", if rename_labels { "labels" } else { "registers" }),
                        format!("after renaming the message `{t0}` (names mapped) has no counterpart; the renamed program says `{t1}`"),
                        json!({"original": c0.printed.text, "renamed": c1.printed.text}),
                    );
                } else {
                    acc.count("pairs_equal", 1);
                    if k == 0 && shard == 0 && acc.samples.len() < 2 {
                        acc.sample(json!({"class": class, "labels_renamed": rename_labels, "diagnostics": d0.len(), "example_label": labelmap.values().next()}));
                    }
                }
            }
        }
        acc
    });
    rep.acc.merge(acc);
    rep.require("pairs_equal", 500);
    rep.require("compared:temp", 100);
    rep.require("compared:saved", 100);
    rep.require("compared:label", 100);
    rep.finish()
}
