//! C19 - the CFG debug dump is a faithful, reloadable serialization.

use super::common::*;
use crate::cli::{self, Scratch};
use crate::gen::{self, Profile};
use crate::graph::GraphView;
use crate::print::{print, Style};
use crate::report::{run_sharded, Acc, Ctx, Report};
use crate::rng::{hash64, Rng};
use crate::rva::guarded;
use riscv_analysis::analysis::{AvailableValue, MemoryLocation};
use crate::graph::{mem_map, reg_map, regset_bits};
use crate::shapes;
use riscv_analysis::cfg::{AvailableValueMap, CfgWrapper, NodeWrapper, RegisterSet};
use riscv_analysis::parser::{CsrImm, LabelString, Register, Token, With};
use serde_json::json;
use std::collections::BTreeMap;

fn reg(n: u8) -> Register {
    Register::from_num(n).expect("register number")
}

/// All value variants with boundary payloads.
fn all_values() -> Vec<(String, AvailableValue)> {
    let ints = [0, 1, -1, 5, i32::MIN, i32::MAX, 1024, -2048];
    let regs = [0u8, 2, 10, 31];
    let labels = ["_", "x", "main", "a_b_1", "L1"];
    // (numeric CSR operands are not limited to 12 bits: numbers that agree in their low 12 bits are different CSRs)
    let csrs = [0u32, 5, 0x40, 0xC00, 0xC82, 0xFFF, 0x1000, 0x1005, 0x1040, 0x2040, 0x8000_0040, u32::MAX];
    let mut v = Vec::new();
    for i in ints {
        v.push((format!("Constant({i})"), AvailableValue::Constant(i)));
    }
    for l in labels {
        v.push((format!("Address({l})"), AvailableValue::Address(With::new(LabelString::new(l), Token::default()))));
        for i in [0, 4, -4] {
            v.push((format!("Memory({l},{i})"), AvailableValue::Memory(LabelString::new(l), i)));
        }
    }
    for r in regs {
        for i in [0, 1, -1, i32::MIN, i32::MAX] {
            v.push((format!("RegisterWithScalar(x{r},{i})"), AvailableValue::RegisterWithScalar(reg(r), i)));
            v.push((format!("OriginalRegisterWithScalar(x{r},{i})"), AvailableValue::OriginalRegisterWithScalar(reg(r), i)));
            v.push((format!("MemoryAtRegister(x{r},{i})"), AvailableValue::MemoryAtRegister(reg(r), i)));
            v.push((format!("MemoryAtOriginalRegister(x{r},{i})"), AvailableValue::MemoryAtOriginalRegister(reg(r), i)));
        }
    }
    for c in csrs {
        v.push((format!("ValueInCsr({c})"), AvailableValue::ValueInCsr(CsrImm::new(c))));
        for i in [0, 8, -8] {
            v.push((format!("MemoryAtCsr({c},{i})"), AvailableValue::MemoryAtCsr(CsrImm::new(c), i)));
        }
    }
    v
}

fn all_locations() -> Vec<(String, MemoryLocation)> {
    let mut v = Vec::new();
    for o in [0, 4, -4, 1, -1, 2047, -2048, i32::MAX, i32::MIN + 1, i32::MIN] {
        v.push((format!("StackOffset({o})"), MemoryLocation::StackOffset(o)));
    }
    for c in [0u32, 5, 0x40, 0xC82, 0xFFF, 0x1000, 0x1005, 0x1040, 0x2040, 0x8000_0040, u32::MAX] {
        v.push((format!("CsrRegister({c})"), MemoryLocation::CsrRegister(CsrImm::new(c))));
        for o in [0, 8, -8, i32::MIN, i32::MAX] {
            v.push((format!("CsrRegisterValueOffset({c},{o})"), MemoryLocation::CsrRegisterValueOffset(CsrImm::new(c), o)));
        }
    }
    v
}

fn variant_of(name: &str) -> &str {
    name.split('(').next().unwrap_or(name)
}

/// Exhaustive-over-variants checks on the value types themselves.
fn direct_checks(acc: &mut Acc) {
    // ---- values: round trip + injectivity
    let mut enc: BTreeMap<String, String> = BTreeMap::new();
    for (name, v) in all_values() {
        acc.evaluations += 1;
        acc.count("values_round_tripped", 1);
        acc.note("value_variants", variant_of(&name).to_string());
        let r = guarded(|| {
            let y = serde_yaml::to_string(&v).map_err(|e| e.to_string())?;
            let back: AvailableValue = serde_yaml::from_str(&y).map_err(|e| format!("load failed: {e} (dump `{}`)", y.trim()))?;
            Ok::<_, String>((y, back))
        });
        match r {
            Err(p) => acc.violation(format!("C19|panic|AvailableValue|{}", variant_of(&name)), format!("serializing {name} panics: {}", p.msg), json!({"value": name})),
            Ok(Err(e)) => acc.violation(format!("C19|load-fail|AvailableValue|{}", variant_of(&name)), format!("{name}: {e}"), json!({"value": name})),
            Ok(Ok((y, back))) => {
                if back != v {
                    acc.violation(
                        format!("C19|roundtrip|AvailableValue|{}", variant_of(&name)),
                        format!("{name} is written as `{}` and loaded back as {back:?}", y.trim()),
                        json!({"value": name, "dump": y}),
                    );
                }
                if let Some(other) = enc.get(&y) {
                    acc.violation(
                        format!("C19|collision|AvailableValue|{}+{}", variant_of(other), variant_of(&name)),
                        format!("{other} and {name} have the same dump `{}`", y.trim()),
                        json!({"values": [other, name], "dump": y}),
                    );
                } else {
                    enc.insert(y, name.clone());
                }
                acc.nontrivial.insert(hash64(&name));
            }
        }
    }
    // ---- memory locations, as keys of a map (that is how they are dumped)
    let mut enc: BTreeMap<String, String> = BTreeMap::new();
    for (name, l) in all_locations() {
        acc.evaluations += 1;
        acc.count("locations_round_tripped", 1);
        acc.note("location_variants", variant_of(&name).to_string());
        let r = guarded(|| {
            let mut m: AvailableValueMap<MemoryLocation> = AvailableValueMap::new();
            m.insert(l.clone(), AvailableValue::Constant(7));
            let y = serde_yaml::to_string(&m).map_err(|e| e.to_string())?;
            let back: AvailableValueMap<MemoryLocation> = serde_yaml::from_str(&y).map_err(|e| format!("load failed: {e} (dump `{}`)", y.trim()))?;
            Ok::<_, String>((y, back == m))
        });
        match r {
            Err(p) => acc.violation(format!("C19|panic|MemoryLocation|{}", variant_of(&name)), format!("serializing {name} panics: {}", p.msg), json!({"location": name})),
            Ok(Err(e)) => acc.violation(format!("C19|load-fail|MemoryLocation|{}", variant_of(&name)), format!("{name}: {e}"), json!({"location": name})),
            Ok(Ok((y, same))) => {
                if !same {
                    acc.violation(format!("C19|roundtrip|MemoryLocation|{}", variant_of(&name)), format!("{name} written as `{}` loads back differently", y.trim()), json!({"location": name}));
                }
                if let Some(other) = enc.get(&y) {
                    acc.violation(format!("C19|collision|MemoryLocation|{}+{}", variant_of(other), variant_of(&name)), format!("{other} and {name} have the same dump"), json!({"locations": [other, name]}));
                } else {
                    enc.insert(y, name.clone());
                }
                acc.nontrivial.insert(hash64(&name));
            }
        }
    }
    // ---- register sets and register maps
    for bits in [0u32, 1, 2, 0xffff_ffff, 0x8000_0001, 0x0003_fc00, 0x5555_5555] {
        acc.evaluations += 1;
        let set: RegisterSet = (0..32u8).filter(|r| bits & (1 << r) != 0).map(reg).collect();
        let r = guarded(|| {
            let y = serde_yaml::to_string(&set).map_err(|e| e.to_string())?;
            let back: RegisterSet = serde_yaml::from_str(&y).map_err(|e| e.to_string())?;
            Ok::<_, String>(back == set)
        });
        acc.count("register_sets_round_tripped", 1);
        if !matches!(r, Ok(Ok(true))) {
            acc.violation("C19|roundtrip|RegisterSet".to_string(), format!("register set {bits:#x} does not round-trip: {r:?}"), json!({"bits": bits}));
        }
    }
    let vals = all_values();
    for k in 0..vals.len() {
        acc.evaluations += 1;
        let mut m: AvailableValueMap<Register> = AvailableValueMap::new();
        m.insert(reg((k % 31 + 1) as u8), vals[k].1.clone());
        m.insert(reg(((k * 7) % 31 + 1) as u8), vals[(k * 13 + 5) % vals.len()].1.clone());
        let r = guarded(|| {
            let y = serde_yaml::to_string(&m).map_err(|e| e.to_string())?;
            let back: AvailableValueMap<Register> = serde_yaml::from_str(&y).map_err(|e| e.to_string())?;
            Ok::<_, String>(back == m)
        });
        acc.count("register_maps_round_tripped", 1);
        if !matches!(r, Ok(Ok(true))) {
            acc.violation(
                format!("C19|roundtrip|AvailableValueMap|{}", variant_of(&vals[k].0)),
                format!("a register map holding {} does not round-trip: {r:?}", vals[k].0),
                json!({"value": vals[k].0}),
            );
        }
    }
}

/// Decode an emitted dump with nothing but its own text and compare it, field by field, with the
/// facts the analysis holds (read through the public getters): what the dump loses shows up here.
fn decode_and_compare(text: &str, acc: &mut Acc, kind: &str) {
    let Ok(a) = analyze(text) else { return };
    decode_and_compare_analysis(&a, text, acc, kind);
}

/// The same for a program that is spread over several files (the dump lists the nodes of all files;
/// every index in it must mean the same node as in the analysis).
fn decode_and_compare_files(files: &[(String, String)], acc: &mut Acc, kind: &str) {
    let Ok(a) = guarded(|| crate::rva::analyze_with(crate::rva::MemReader::new(files), FILE)) else { return };
    let shown = files.iter().map(|(n, t)| format!("=== {n}\n{t}")).collect::<Vec<_>>().join("\n");
    if a.cfg.is_ok() {
        acc.count("multi_file_dumps_decoded", 1);
    }
    decode_and_compare_analysis(&a, &shown, acc, kind);
}

fn decode_and_compare_analysis(a: &crate::rva::Analysis, text: &str, acc: &mut Acc, kind: &str) {
    let Ok(cfg) = a.cfg.as_ref() else { return };
    let gv = GraphView::of(cfg);
    let Ok(Ok(y)) = guarded(|| serde_yaml::to_string(&CfgWrapper::from(cfg))) else { return };
    let nodes: Vec<NodeWrapper> = match guarded(|| serde_yaml::from_str::<Vec<NodeWrapper>>(&y)) {
        Ok(Ok(n)) => n,
        _ => return, // load failures are reported by the round-trip part
    };
    acc.count("dumps_decoded", 1);
    let mut bad = |field: &str, i: usize, detail: String, acc: &mut Acc| {
        acc.violation(format!("C19|decode|{field}"), format!("{kind}: the dump of node {i} (`{}`) does not carry the analysis's {field}: {detail}", gv.nodes[i].render), json!({"program": text}));
    };
    if nodes.len() != gv.nodes.len() {
        acc.violation("C19|decode|node-count".to_string(), format!("{kind}: {} nodes dumped, the graph has {}", nodes.len(), gv.nodes.len()), json!({"program": text}));
        return;
    }
    let mut shared_nodes = 0u64;
    for (i, (nw, nv)) in nodes.iter().zip(gv.nodes.iter()).enumerate() {
        let set = |h: &std::collections::HashSet<usize>| h.iter().copied().collect::<std::collections::BTreeSet<usize>>();
        if set(&nw.nexts) != nv.nexts {
            bad("successor edges", i, format!("{:?} vs {:?}", set(&nw.nexts), nv.nexts), acc);
        }
        if set(&nw.prevs) != nv.prevs {
            bad("predecessor edges", i, format!("{:?} vs {:?}", set(&nw.prevs), nv.prevs), acc);
        }
        if regset_bits(&nw.live_in) != nv.live_in || regset_bits(&nw.live_out) != nv.live_out {
            bad("liveness sets", i, format!("in {:08x}/{:08x} out {:08x}/{:08x}", regset_bits(&nw.live_in), nv.live_in, regset_bits(&nw.live_out), nv.live_out), acc);
        }
        if reg_map(&nw.reg_values_in) != nv.reg_in || reg_map(&nw.reg_values_out) != nv.reg_out {
            bad("register value facts", i, format!("{:?} vs {:?}", reg_map(&nw.reg_values_out), nv.reg_out), acc);
        }
        if mem_map(&nw.memory_values_in) != nv.mem_in || mem_map(&nw.memory_values_out) != nv.mem_out {
            bad("memory value facts", i, format!("{:?} vs {:?}", mem_map(&nw.memory_values_out), nv.mem_out), acc);
        }
        let labels: std::collections::BTreeSet<String> = nw.labels.iter().cloned().collect();
        if labels != nv.labels {
            bad("labels", i, format!("{labels:?} vs {:?}", nv.labels), acc);
        }
        // function annotation: the set of (entry, exit) pairs of the functions the node belongs to
        let want: std::collections::BTreeSet<(usize, usize)> = nv.funcs.iter().map(|f| (gv.funcs[*f].entry, gv.funcs[*f].exit)).collect();
        if nw.func_entry.len() != nw.func_exit.len() {
            bad("function annotation", i, format!("{} entries but {} exits", nw.func_entry.len(), nw.func_exit.len()), acc);
        } else {
            let got: std::collections::BTreeSet<(usize, usize)> = nw.func_entry.iter().copied().zip(nw.func_exit.iter().copied()).collect();
            if got != want {
                bad("function annotation", i, format!("dump pairs (entry, exit) {got:?}, analysis {want:?}"), acc);
            }
        }
        if want.len() > 1 {
            shared_nodes += 1;
        }
    }
    acc.count("decoded_nodes", nodes.len() as u64);
    acc.count("decoded_nodes_in_several_functions", shared_nodes);
}

fn dump_of(text: &str) -> Result<(String, Vec<String>), String> {
    let a = analyze(text).map_err(|p| format!("panic {}", p.msg))?;
    let cfg = a.cfg.as_ref().map_err(|e| e.title.clone())?;
    let w = CfgWrapper::from(cfg);
    let y = guarded(|| serde_yaml::to_string(&w)).map_err(|p| format!("panic while dumping: {}", p.msg))?.map_err(|e| e.to_string())?;
    Ok((y, GraphView::of(cfg).snapshot()))
}

/// CSR-heavy and value-kind-heavy programs whose one-instruction mutants differ in facts.
fn mutant_pairs(rng: &mut Rng) -> Vec<(&'static str, String, String)> {
    let k = rng.range(1, 60);
    let csr = *rng.pick(&[5, 0x40, 0x41, 0x42]);
    let frame = |body: &str| format!("# c19\nmain:\n{body}    li a7, 10\n    ecall\n.data\nbuf: .word 1, 2\n");
    vec![
        ("csrr-vs-li", frame(&format!("    csrr t0, {csr}\n    mv a0, t0\n")), frame(&format!("    li t0, {csr}\n    mv a0, t0\n"))),
        ("lw-vs-la", frame("    la t0, buf\n    lw t1, 0(t0)\n    mv a0, t1\n"), frame("    la t0, buf\n    la t1, buf\n    mv a0, t1\n")),
        ("constant-sign", frame(&format!("    li t0, {k}\n    mv a0, t0\n")), frame(&format!("    li t0, -{k}\n    mv a0, t0\n"))),
        ("csr-memory", frame(&format!("    li t1, {k}\n    csrrw t0, {csr}, t1\n    csrr t2, {csr}\n    mv a0, t2\n")), frame(&format!("    li t1, {k}\n    csrrw t0, {csr}, t1\n    li t2, {csr}\n    mv a0, t2\n"))),
    ]
}

pub fn run(ctx: &Ctx) -> i32 {
    let mut rep = Report::new(
        ctx,
        "(i) every AvailableValue variant x boundary payloads, every MemoryLocation variant x negative/zero/positive offsets, register sets and register maps: dump (serde_yaml, the --yaml format), load, compare; \
         pairwise-distinct values must have pairwise-distinct dumps. (ii) whole graphs of generated programs and CSR-heavy programs: CfgWrapper dump -> load -> dump must be identical, and one-instruction mutants whose \
         fact snapshots (taken through the public getters) differ must have different dumps; the same through `rva lint --yaml`. (iii) decoder: every dump (generated programs - also split into included files -, shared-tail families, trap handlers, \
         call-graph shapes with overlapping functions) is loaded as plain node records and compared field by field with the analysis (edges, liveness, register and memory facts, labels, and per node the set of (entry, exit) pairs of its functions). distinct_nontrivial = distinct values / locations / program dumps checked",
    );
    rep.assume("lists that represent sets (func_entry / func_exit) are compared as sets");
    let per_shard = ctx.tier.pick(40, 400);
    let mut acc0 = Acc::new();
    direct_checks(&mut acc0);
    rep.acc.merge(acc0);
    let acc = run_sharded(ctx, |shard| {
        let mut acc = Acc::new();
        for k in 0..per_shard {
            let mut rng = Rng::derive(ctx.seed, 19_000 + shard as u64, k as u64);
            // ---- whole-graph round trip
            let g = gen::generate(&mut rng, &Profile::wild(), None);
            let text = print(&g.prog, &Style::plain(), &mut Rng::new(1)).text;
            acc.evaluations += 1;
            match dump_of(&text) {
                Err(e) => {
                    if e.starts_with("panic while dumping") {
                        acc.violation("C19|panic|CfgWrapper|dump".to_string(), e, json!({"program": text}));
                    } else {
                        acc.count("analysis_unavailable", 1);
                    }
                }
                Ok((y, _)) => {
                    acc.count("graphs_dumped", 1);
                    acc.nontrivial.insert(hash64(&y));
                    match guarded(|| serde_yaml::from_str::<CfgWrapper>(&y)) {
                        Ok(Ok(back)) => {
                            let y2 = serde_yaml::to_string(&back).unwrap_or_default();
                            // func_entry / func_exit are emitted in hash order: compare line-sorted
                            let norm = |s: &str| {
                                let mut l: Vec<&str> = s.lines().collect();
                                l.sort_unstable();
                                l.join("\n")
                            };
                            if y2 != y && norm(&y2) != norm(&y) {
                                let d = y.lines().zip(y2.lines()).find(|(a, b)| a != b).map(|(a, b)| format!("`{a}` vs `{b}`")).unwrap_or_default();
                                acc.violation("C19|roundtrip|CfgWrapper|redump-differs".to_string(), format!("dump -> load -> dump changes the dump: {d}"), json!({"program": text}));
                            } else {
                                acc.count("graphs_round_tripped", 1);
                            }
                        }
                        Ok(Err(e)) => acc.violation("C19|load-fail|CfgWrapper".to_string(), format!("an emitted dump cannot be loaded: {e}"), json!({"program": text})),
                        Err(p) => acc.violation("C19|panic|CfgWrapper|load".to_string(), format!("loading an emitted dump panics: {}", p.msg), json!({"program": text})),
                    }
                }
            }
            // ---- decode the dump and compare with the analysis, field by field
            decode_and_compare(&text, &mut acc, "generated");
            if k % 2 == 0 {
                // the same program spread over included files
                let files = super::c10::split_into_files(&text, &mut rng, 3);
                if files.len() > 1 {
                    acc.evaluations += 1;
                    decode_and_compare_files(&files, &mut acc, "generated, split into files");
                }
            }
            let mut family: Vec<shapes::Shape> = vec![shapes::shared_tail_family(&mut rng), shapes::trap_handler_family(&mut rng)];
            if k % 4 == 0 {
                family.extend(shapes::call_graph_shapes(&mut rng));
            }
            for s in family {
                acc.evaluations += 1;
                let t = print(&s.prog, &Style::plain(), &mut Rng::new(1)).text;
                acc.nontrivial.insert(hash64(&t));
                decode_and_compare(&t, &mut acc, s.name);
            }
            // ---- mutants: different facts => different dumps
            for (name, a, b) in mutant_pairs(&mut rng) {
                acc.evaluations += 1;
                let (Ok((ya, sa)), Ok((yb, sb))) = (dump_of(&a), dump_of(&b)) else {
                    acc.count("mutant_analysis_unavailable", 1);
                    continue;
                };
                acc.count("mutant_pairs_compared", 1);
                if sa != sb && ya == yb {
                    acc.violation(
                        format!("C19|collision|CfgWrapper|{name}"),
                        format!("two programs whose analysis facts differ ({name}) produce the same dump"),
                        json!({"a": a, "b": b}),
                    );
                }
                acc.nontrivial.insert(hash64(&ya));
            }
            // ---- through the CLI
            if k == 0 && !ctx.rva_checked.as_os_str().is_empty() {
                let sc = Scratch::new(&ctx.root, "c19");
                sc.write("main.s", &text);
                let run = cli::rva(&ctx.rva_checked, &["lint", "--yaml", "--no-output", "main.s"], &sc.dir);
                acc.count("cli_dumps", 1);
                if run.code == Some(0) && !run.timed_out {
                    match guarded(|| serde_yaml::from_str::<CfgWrapper>(&run.stdout)) {
                        Ok(Ok(_)) => acc.count("cli_dumps_loaded", 1),
                        Ok(Err(e)) => {
                            if dump_of(&text).is_ok() {
                                acc.violation("C19|load-fail|cli-yaml".to_string(), format!("`rva lint --yaml` output cannot be loaded: {e}"), json!({"program": text}));
                            }
                        }
                        Err(p) => acc.violation("C19|panic|cli-yaml".to_string(), p.msg, json!({"program": text})),
                    }
                } else if run.panicked() {
                    acc.violation("C19|panic|cli-yaml|dump".to_string(), format!("`rva lint --yaml` panics: {}", run.stderr.lines().next().unwrap_or("")), json!({"program": text}));
                }
            }
        }
        acc
    });
    rep.acc.merge(acc);
    rep.extra.insert("exhaustive_subspaces".into(), json!([{"name": "AvailableValue variants (9) and MemoryLocation variants (3) x boundary payloads", "exhaustive": true}]));
    rep.require("values_round_tripped", 100);
    rep.require("locations_round_tripped", 20);
    rep.require("graphs_round_tripped", 50);
    rep.require("mutant_pairs_compared", 100);
    rep.require("dumps_decoded", 100);
    rep.require("multi_file_dumps_decoded", 30);
    rep.require("decoded_nodes_in_several_functions", 20);
    rep.acc.sample(json!({"value": "ValueInCsr(5)", "expected": "a dump different from Constant(5)"}));
    rep.finish()
}
