//! C09 - every reported location designates exactly the text it is about.
//!
//! Reference model for a file text T (as chars): line(k) = number of '\n' in T[..k],
//! col(k) = k - (index of the last '\n' before k + 1). A position is consistent iff
//! line == line(raw) and column == col(raw); a range is well-formed iff both ends are
//! consistent, inside T, on one line and start <= end; the slice is T[start.raw ..= end.raw].

use super::c10::split_into_files;
use super::common::*;
use crate::ast::*;
use crate::gen::{self, Profile, ALL_INJECT};
use crate::print::{print, Style};
use crate::report::{run_sharded, Acc, Ctx, Report};
use crate::rng::{hash64, Rng};
use crate::rva::{self, guarded, MemReader, Span};
use riscv_analysis::parser::{Lexer, TokenType};
use riscv_analysis::passes::DiagnosticLocation;
use serde_json::json;

pub struct TextIndex {
    pub chars: Vec<char>,
    /// raw index of the first char of each line
    pub line_start: Vec<usize>,
}

impl TextIndex {
    pub fn new(text: &str) -> Self {
        let chars: Vec<char> = text.chars().collect();
        let mut line_start = vec![0];
        for (i, c) in chars.iter().enumerate() {
            if *c == '\n' {
                line_start.push(i + 1);
            }
        }
        TextIndex { chars, line_start }
    }
    pub fn line_col(&self, raw: usize) -> (usize, usize) {
        let line = match self.line_start.binary_search(&raw) {
            Ok(l) => l,
            Err(l) => l - 1,
        };
        (line, raw - self.line_start[line])
    }
    /// Text of line `l` (without its line break).
    pub fn line_text(&self, l: usize) -> String {
        let a = self.line_start.get(l).copied().unwrap_or(self.chars.len());
        let b = self.line_start.get(l + 1).map_or(self.chars.len(), |x| x - 1);
        self.chars[a.min(b)..b].iter().filter(|c| **c != '\r').collect()
    }
    pub fn slice(&self, a: usize, b: usize) -> String {
        if a > b || b >= self.chars.len() {
            return String::new();
        }
        self.chars[a..=b].iter().collect()
    }
    /// None when well-formed, else what is wrong.
    pub fn check_span(&self, s: &Span) -> Option<&'static str> {
        let n = self.chars.len();
        if s.start.raw > s.end.raw {
            return Some("start-after-end");
        }
        if s.end.raw >= n {
            return Some("outside-file");
        }
        if self.line_col(s.start.raw) != (s.start.line, s.start.col) {
            return Some("start-line-column-disagree-with-raw");
        }
        if self.line_col(s.end.raw) != (s.end.line, s.end.col) {
            return Some("end-line-column-disagree-with-raw");
        }
        if s.start.line != s.end.line {
            return Some("spans-lines");
        }
        None
    }
}

/// Layout feature of a position, for signatures.
fn layout_feature(ti: &TextIndex, s: &Span, layout: &str) -> String {
    let line0 = ti.line_col(s.start.raw.min(ti.chars.len().saturating_sub(1))).0;
    if line0 == 0 && s.start.line == 0 {
        return "first-line".to_string();
    }
    layout.to_string()
}

const REG_CODES: [&str; 6] = [
    "dead-assignment",
    "save-to-zero",
    "lost-register-value",
    "overwrite-callee-saved-register",
    "invalid-use-after-call",
    "invalid-use-before-assignment",
];

fn token_kind(t: &TokenType) -> &'static str {
    match t {
        TokenType::LParen => "lparen",
        TokenType::RParen => "rparen",
        TokenType::Newline => "newline",
        TokenType::Label(_) => "label",
        TokenType::Symbol(_) => "symbol",
        TokenType::Directive(_) => "directive",
        TokenType::String(_) => "string",
        TokenType::Char(_) => "char",
        TokenType::Comment(_) => "comment",
    }
}

fn check_tokens(text: &str, layout: &str, acc: &mut Acc, replay: &serde_json::Value) {
    let ti = TextIndex::new(text);
    let toks = match guarded(|| Lexer::new(text.to_string(), uuid::Uuid::new_v4()).collect::<Vec<_>>()) {
        Ok(t) => t,
        Err(p) => {
            acc.count(&format!("lexer_panicked:{}", p.class()), 1);
            return;
        }
    };
    let mut prev_end: Option<usize> = None;
    for t in toks.into_iter().flatten() {
        acc.count("tokens_checked", 1);
        let sp = Span::of(&t.range());
        let kind = token_kind(t.token_type());
        let feat = layout_feature(&ti, &sp, layout);
        if let Some(why) = ti.check_span(&sp) {
            acc.violation(
                format!("C09|token|{kind}|{why}|{feat}"),
                format!("{kind} token `{}` has range {:?}: {why}", t.raw_text().escape_debug(), sp),
                replay.clone(),
            );
            continue;
        }
        let sl = ti.slice(sp.start.raw, sp.end.raw);
        let ok = match t.token_type() {
            TokenType::Symbol(s) => sl == *s,
            TokenType::Label(s) => sl == format!("{s}:"),
            TokenType::Directive(d) => sl == *d,
            TokenType::String(_) => sl.starts_with('"') && sl.ends_with('"') && sl.len() >= 2,
            TokenType::Char(_) => sl.starts_with('\'') && sl.ends_with('\'') && sl.chars().count() >= 3,
            TokenType::Comment(c) => sl == format!("#{c}"),
            TokenType::Newline => sl == "\n",
            TokenType::LParen => sl == "(",
            TokenType::RParen => sl == ")",
        };
        if !ok {
            acc.violation(
                format!("C09|token|{kind}|wrong-slice|{feat}"),
                format!("{kind} token `{}`: the characters at its range are `{}`", t.raw_text().escape_debug(), sl.escape_debug()),
                replay.clone(),
            );
        }
        if let Some(pe) = prev_end {
            if sp.start.raw <= pe {
                acc.violation(
                    format!("C09|token|{kind}|overlaps-previous|{feat}"),
                    format!("{kind} token `{}` starts at {} inside the previous token (end {pe})", t.raw_text().escape_debug(), sp.start.raw),
                    replay.clone(),
                );
            }
        }
        prev_end = Some(sp.end.raw);
    }
}

/// Nodes: the range runs from the first token to the last token of the statement, on one line.
fn check_nodes_and_diags(c: &Case, files: &[(String, String)], layout: &str, acc: &mut Acc, replay: &serde_json::Value) {
    let a = match guarded(|| rva::analyze_with(MemReader::new(files), FILE)) {
        Ok(a) => a,
        Err(p) => {
            acc.count(&format!("analysis_panicked:{}", p.class()), 1);
            return;
        }
    };
    let index: std::collections::HashMap<String, TextIndex> = files.iter().map(|(n, t)| (n.clone(), TextIndex::new(t))).collect();
    // ---- nodes
    for n in &a.nodes {
        if matches!(n, riscv_analysis::parser::ParserNode::ProgramEntry(_)) {
            continue;
        }
        let fname = rva::file_name(&a.reader, n.file());
        let Some(ti) = index.get(&fname) else {
            acc.violation(format!("C09|node|unknown-file|{layout}"), format!("node `{n}` is attributed to file {fname}"), replay.clone());
            continue;
        };
        // a data list may deliberately continue on following lines (and swallows the line
        // breaks it looks across): such directive nodes are not single-line statements
        if let riscv_analysis::parser::ParserNode::Directive(d) = n {
            if matches!(d.dir, riscv_analysis::parser::DirectiveType::Data(..)) {
                acc.count("data_list_nodes_skipped", 1);
                continue;
            }
        }
        acc.count("nodes_checked", 1);
        let sp = Span::of(&n.range());
        let feat = layout_feature(ti, &sp, layout);
        if let Some(why) = ti.check_span(&sp) {
            acc.violation(format!("C09|node|{why}|{feat}"), format!("node `{n}` has range {:?}: {why}", sp), replay.clone());
            continue;
        }
        // a statement starts at its first token: behind the indentation and the labels of its line
        // (independent of what the node says its text is)
        if layout != "two-per-line" && !matches!(n, riscv_analysis::parser::ParserNode::Label(_)) {
            let line: String = ti.line_text(sp.start.line);
            let cs: Vec<char> = line.chars().collect();
            let mut i = 0;
            loop {
                while i < cs.len() && cs[i].is_whitespace() {
                    i += 1;
                }
                // a label in front of the statement?
                let mut j = i;
                while j < cs.len() && (cs[j].is_alphanumeric() || cs[j] == '_' || cs[j] == '-') {
                    j += 1;
                }
                if j > i && j < cs.len() && cs[j] == ':' {
                    i = j + 1;
                } else {
                    break;
                }
            }
            if i < cs.len() && cs[i] != '#' && sp.start.col != i {
                acc.violation(
                    format!("C09|node|does-not-start-at-its-first-token|{feat}"),
                    format!("node `{n}` starts at column {} of line {}, its statement starts at column {i} (`{}`)", sp.start.col, sp.start.line + 1, line.trim()),
                    replay.clone(),
                );
                continue;
            }
        }
        // the statement's own tokens, re-lexed from the slice, must render to the node's text
        let sl = ti.slice(sp.start.raw, sp.end.raw);
        let relexed: Vec<String> = Lexer::new(sl.clone(), uuid::Uuid::new_v4()).flatten().map(|t| t.raw_text()).collect();
        if relexed.join(" ") != n.raw_text() {
            acc.violation(
                format!("C09|node|wrong-slice|{feat}"),
                format!("node `{}`: the characters at its range are `{}`", n.raw_text(), sl.escape_debug()),
                replay.clone(),
            );
        }
    }
    // ---- diagnostics and parse errors
    for d in a.all_diags() {
        let Some(ti) = index.get(&d.file) else {
            acc.violation(format!("C09|diag|unknown-file|{}|{layout}", d.code), format!("diagnostic {} is attributed to file {}", diag_brief(&d), d.file), replay.clone());
            continue;
        };
        acc.count("diagnostics_checked", 1);
        let feat = layout_feature(ti, &d.span, layout);
        if let Some(why) = ti.check_span(&d.span) {
            acc.violation(format!("C09|diag|{why}|{}|{feat}", d.code), format!("diagnostic {}: {why}", diag_brief(&d)), replay.clone());
            continue;
        }
        let sl = ti.slice(d.span.start.raw, d.span.end.raw);
        let tokens: Vec<String> = Lexer::new(sl.clone(), uuid::Uuid::new_v4()).flatten().map(|t| t.raw_text()).collect();
        if tokens.join(" ") != d.raw_text {
            acc.violation(
                format!("C09|diag|wrong-slice|{}|{feat}", d.code),
                format!("diagnostic {}: the characters at its range are `{}`", diag_brief(&d), sl.escape_debug()),
                replay.clone(),
            );
            continue;
        }
        // register diagnostics name a register (or, for an implicit operand, the mnemonic)
        if REG_CODES.contains(&d.code.as_str()) {
            let is_reg = reg_from_name(sl.trim()).is_some();
            let is_mnemonic = riscv_analysis::parser::Inst::all().iter().any(|i| i.to_string() == sl.trim().to_lowercase());
            if !(is_reg || is_mnemonic) {
                acc.violation(
                    format!("C09|diag|not-a-register|{}|{feat}", d.code),
                    format!("diagnostic {} points at `{}`", diag_brief(&d), sl.escape_debug()),
                    replay.clone(),
                );
            }
        }
    }
    // ---- the diagnostics of the single-file layout must sit on the instruction the printer
    // put there (only when the whole program is one file and the printer's columns apply)
    if files.len() == 1 && layout == "plain" {
        for d in a.lints.iter() {
            if let Some(k) = c.printed.line_to_ins.get(&d.span.start.line) {
                let ip = &c.printed.ins[*k];
                let inside = d.span.start.col >= ip.full.0 && d.span.end.col <= ip.full.1;
                let on_label = d.span.end.col < ip.mn.0;
                if !(inside || on_label) {
                    acc.violation(
                        format!("C09|diag|outside-instruction|{}|plain", d.code),
                        format!("diagnostic {} lies outside the instruction text (columns {}..{})", diag_brief(d), ip.full.0, ip.full.1),
                        replay.clone(),
                    );
                }
                acc.count("diagnostics_matched_to_printer_columns", 1);
            }
        }
    }
}

pub fn run(ctx: &Ctx) -> i32 {
    let mut rep = Report::new(
        ctx,
        "programs (conforming / planted violation / wild) printed under random styles in several layouts: comment header, statement on the very first line, 1-3 leading blank lines, \
         tab indentation, non-ASCII comments and strings, last line without newline, two statements on one line, split into included files, CR/LF and mixed line endings. Every token of the real lexer, every parsed node, \
         every parse error and diagnostic is checked against the reference position model (line/column/raw mutually consistent, inside the file, one line, slice = the token / statement / register it names). \
         distinct_nontrivial = distinct (layout, text) pairs checked",
    );
    rep.assume("inclusive-end convention and char (not byte) indexing, as in the repository's own golden JSON files");
    rep.assume("a diagnostic on an implicit operand (ret, call, jal L) legitimately carries the mnemonic's range");
    let per_shard = ctx.tier.pick(30, 600);
    let acc = run_sharded(ctx, |shard| {
        let mut acc = Acc::new();
        for k in 0..per_shard {
            let mut rng = Rng::derive(ctx.seed, 9_000 + shard as u64, k as u64);
            let (prof, inject) = match rng.below(4) {
                0 => (Profile::conforming(), None),
                1 | 2 => (Profile::conforming(), Some(ALL_INJECT[rng.below(ALL_INJECT.len())])),
                _ => (Profile::wild_surface(), None),
            };
            let g = gen::generate(&mut rng, &prof, inject);
            for layout in ["plain", "styled", "first-line", "leading-blank", "two-per-line", "included", "no-final-newline", "crlf", "mixed-line-endings"] {
                let mut st = if layout == "plain" { Style::plain() } else { Style::random(&mut rng) };
                st.p_label_inline = if layout == "two-per-line" { 1.0 } else { st.p_label_inline };
                match layout {
                    "first-line" => st.header = false,
                    "leading-blank" => st.header = false,
                    "no-final-newline" => st.trailing_newline = false,
                    _ => {}
                }
                let printed = print(&g.prog, &st, &mut Rng::derive(ctx.seed, 9_999, rng.next_u64()));
                let mut text = printed.text.clone();
                if layout == "leading-blank" {
                    text = format!("{}{}", "\n".repeat(1 + rng.below(3)), text);
                }
                if layout == "two-per-line" {
                    // glue every second line break into spaces (outside the data section)
                    let lines: Vec<&str> = text.lines().collect();
                    let mut out = String::new();
                    let mut i = 0;
                    while i < lines.len() {
                        let l = lines[i];
                        let plain_ins = |s: &str| !s.trim().is_empty() && !s.contains('#') && !s.contains('.') && !s.trim_end().ends_with(':') && !s.contains('"');
                        if i + 1 < lines.len() && plain_ins(l) && plain_ins(lines[i + 1]) && !lines[i + 1].contains(':') && rng.chance(0.5) {
                            out.push_str(l);
                            out.push_str("   ");
                            out.push_str(lines[i + 1].trim_start());
                            out.push('\n');
                            i += 2;
                        } else {
                            out.push_str(l);
                            out.push('\n');
                            i += 1;
                        }
                    }
                    text = out;
                }
                if layout == "crlf" {
                    text = text.replace('\n', "\r\n");
                }
                if layout == "mixed-line-endings" {
                    let mut out = String::new();
                    for l in text.split_inclusive('\n') {
                        if rng.chance(0.4) && l.ends_with('\n') {
                            out.push_str(&l[..l.len() - 1]);
                            out.push_str("\r\n");
                        } else {
                            out.push_str(l);
                        }
                    }
                    text = out;
                }
                let files = if layout == "included" { split_into_files(&text, &mut rng, 4) } else { vec![(FILE.to_string(), text.clone())] };
                let c = Case { g: g.clone(), printed };
                acc.evaluations += 1;
                acc.note("layouts", layout);
                let replay = json!({"layout": layout, "files": files});
                for (_, t) in &files {
                    check_tokens(t, layout, &mut acc, &replay);
                }
                check_nodes_and_diags(&c, &files, layout, &mut acc, &replay);
                acc.nontrivial.insert(hash64(&format!("{layout}{text}")));
                if layout == "plain" {
                    // directed: short statements as the very first characters of a file (the base file and
                    // an included one): the first token ends at offset 0..2, where "no position yet" lives
                    let first = *rng.pick(&["j tail", "b tail", "j  tail", "jr ra", "la t0, tail", "li t0, 1", "mv t1, t0", "ret", "jal tail", "x: j tail", "nop"]);
                    let base = format!("{first}\nmain:\n    li a0, 1\n.include \"tail.s\"\n");
                    let tail = format!("{first}\n    li t6, 5\ntail:\n    li a7, 10\n    ecall\n    li t5, 3\n");
                    let files2 = vec![(FILE.to_string(), base), ("tail.s".to_string(), tail)];
                    let dummy = Case { g: g.clone(), printed: crate::print::Printed { text: String::new(), ins: vec![], line_to_ins: Default::default(), line_of_src: vec![], label_defs: Default::default() } };
                    let replay2 = json!({"layout": "statement-at-offset-0", "files": files2});
                    acc.evaluations += 1;
                    acc.note("layouts", "statement-at-offset-0");
                    for (_, t) in &files2 {
                        check_tokens(t, "statement-at-offset-0", &mut acc, &replay2);
                    }
                    check_nodes_and_diags(&dummy, &files2, "statement-at-offset-0", &mut acc, &replay2);
                }
                if k == 0 && shard == 0 && layout == "styled" {
                    let ex: Vec<&str> = text.lines().skip(9).take(5).collect();
                    acc.sample(json!({"layout": layout, "excerpt": ex}));
                }
            }
        }
        acc
    });
    rep.acc.merge(acc);
    rep.require("tokens_checked", 50_000);
    rep.require("nodes_checked", 10_000);
    rep.require("diagnostics_checked", 100);
    rep.finish()
}
