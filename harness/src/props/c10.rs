//! C10 - output is deterministic and free of duplicate diagnostics.
//!
//! The "schedule" is the hash-iteration order: every thread has its own hash seeds and every
//! parse draws fresh node/file uuids. The same inputs are analysed repeatedly in fresh threads
//! (library) and in separate processes (CLI, every output mode) and all results are compared.

use super::common::*;
use crate::ast::*;
use crate::cli::{self, Scratch};
use crate::gen::{self, Profile, ALL_INJECT};
use crate::print::{print, Style};
use crate::report::{run_sharded, Acc, Ctx, Report};
use crate::rng::{hash64, Rng};
use crate::rva::{self, guarded, Diag, MemReader};
use serde_json::json;
use std::collections::BTreeSet;

/// Cut a printed program into an include tree: returns (files, base name).
pub fn split_into_files(text: &str, rng: &mut Rng, max_files: usize) -> Vec<(String, String)> {
    let lines: Vec<&str> = text.lines().collect();
    let n_files = 1 + rng.below(max_files.max(1));
    if n_files == 1 || lines.len() < 8 {
        return vec![("main.s".to_string(), text.to_string())];
    }
    // choose disjoint line ranges to move out
    let mut cuts: BTreeSet<usize> = BTreeSet::new();
    while cuts.len() < 2 * (n_files - 1) {
        cuts.insert(1 + rng.below(lines.len() - 1));
    }
    let cuts: Vec<usize> = cuts.into_iter().collect();
    let mut files = Vec::new();
    let mut base = String::new();
    let mut pos = 0;
    for (k, pair) in cuts.chunks(2).enumerate() {
        let (a, b) = (pair[0], pair[1]);
        for l in &lines[pos..a] {
            base.push_str(l);
            base.push('\n');
        }
        let name = format!("part{k}.s");
        base.push_str(&format!(".include \"{name}\"\n"));
        let mut body = String::new();
        for l in &lines[a..b] {
            body.push_str(l);
            body.push('\n');
        }
        files.push((name, body));
        pos = b;
    }
    for l in &lines[pos..] {
        base.push_str(l);
        base.push('\n');
    }
    let mut out = vec![("main.s".to_string(), base)];
    out.extend(files);
    out
}

fn render(d: &Diag) -> String {
    format!(
        "{}|{}|{}|{}:{}:{}-{}:{}:{}|{}|{:?}",
        d.title, d.sev.as_str(), d.file, d.span.start.line, d.span.start.col, d.span.start.raw, d.span.end.line, d.span.end.col, d.span.end.raw, d.desc, d.related
    )
}

fn first_difference(a: &[String], b: &[String]) -> (String, String) {
    for (x, y) in a.iter().zip(b.iter()) {
        if x != y {
            let fx: Vec<&str> = x.split('|').collect();
            let fy: Vec<&str> = y.split('|').collect();
            let names = ["title", "severity", "file", "location", "description", "related"];
            for (k, (p, q)) in fx.iter().zip(fy.iter()).enumerate() {
                if p != q {
                    return (names.get(k).copied().unwrap_or("field").to_string(), fx[0].split(':').next().unwrap_or("").to_string());
                }
            }
        }
    }
    ("count".to_string(), a.get(b.len()).or(b.get(a.len())).map(|s| s.split('|').next().unwrap_or("").split(':').next().unwrap_or("").to_string()).unwrap_or_default())
}

pub fn run(ctx: &Ctx) -> i32 {
    let mut rep = Report::new(
        ctx,
        "programs (conforming, with planted violations, wild; functions with several entry labels and several returns; two undefined labels at once; \
         split into 1-4 files with .include) are linted R times in fresh threads through RVParser::run and the staged route, and R/2 times as separate rva processes in \
         --json, --compact and pretty mode with and without --all-files; all outputs of one program must be identical (sequence of kind, severity, file name, range, \
         description, related) and no result may contain two items equal in all of those. distinct_nontrivial = distinct programs with >= 1 diagnostic that were linted repeatedly",
    );
    rep.assume("file identity is compared by name, never by uuid; only diagnostics are compared, not the --yaml/--debug dump body");
    let per_shard = ctx.tier.pick(8, 300);
    let r_lib = ctx.tier.pick(12, 48);
    let r_cli = ctx.tier.pick(3, 12);
    let acc = run_sharded(ctx, |shard| {
        let mut acc = Acc::new();
        for k in 0..per_shard {
            let mut rng = Rng::derive(ctx.seed, 10_000 + shard as u64, k as u64);
            let (prof, inject, undefined) = match rng.below(8) {
                0 => (Profile::conforming(), None, false),
                1..=3 => (Profile::conforming(), Some(ALL_INJECT[rng.below(ALL_INJECT.len())]), false),
                4 => (Profile::wild(), None, true),
                _ => (Profile::wild(), None, false),
            };
            let mut g = gen::generate(&mut rng, &prof, inject);
            if undefined {
                // two (or more) different undefined labels at once
                let mut n = 0;
                for l in g.prog.lines.iter_mut() {
                    if let Line::Ins(Ins::Branch { label, .. }) = l {
                        if n < 3 && rng.chance(0.3) {
                            *label = format!("undef_{n}");
                            n += 1;
                        }
                    }
                }
            }
            let printed = print(&g.prog, &Style::plain(), &mut Rng::new(1));
            let mut files = split_into_files(&printed.text, &mut rng, 4);
            if k % 4 == 3 {
                // "symmetric" files: the same layout in the base file and in included files, so that
                // diagnostics (undefined labels, lints) sit at identical offsets in different files
                let n_inc = 1 + rng.below(3);
                let names: Vec<String> = (0..=n_inc).map(|i| if i == 0 { "main.s".to_string() } else { format!("lib{}.s", (b'a' + i as u8) as char) }).collect();
                let tag = rng.below(1000);
                let body = |i: usize, incl: &str| {
                    let l = (b'a' + i as u8) as char;
                    format!("# symmetric\nblk_{l}{tag:03}:\n    beq a0, a1, und_{l}{tag:03}\n    addi t0, t1, {}\n{incl}    add x0, a0, a1\n", rng_free(i))
                };
                fn rng_free(i: usize) -> usize { 5 + i % 1 }
                let mut fs = Vec::new();
                for (i, n) in names.iter().enumerate() {
                    let incl = if i == 0 { names[1..].iter().map(|m| format!(".include \"{m}\"\n")).collect::<String>() } else { String::new() };
                    fs.push((n.clone(), body(i, &incl)));
                }
                // the base file also ends the program
                fs[0].1.push_str("    li a7, 10\n    ecall\n");
                files = fs;
            }
            if k % 4 == 1 {
                // a register that is read before it is assigned, the first read sitting behind the
                // join of 2-4 paths (in main: any register but a0/a1; in a function: a temporary);
                // one diagnostic is expected, whatever the number of paths that reach the read
                let arms = 2 + rng.below(3);
                let r = *rng.pick(&["t3", "t4", "s2", "a5", "t6"]);
                let in_fn = rng.chance(0.5);
                let mut t = String::from("# join\nmain:\n");
                if in_fn {
                    t.push_str("    li a0, 1\n    jal f\n    li a7, 10\n    ecall\nf:\n");
                }
                for a in 0..arms - 1 {
                    t.push_str(&format!("    li t0, {a}\n    beq a0, t0, arm_{a}\n"));
                }
                t.push_str("    li t1, 9\n    j join\n");
                for a in 0..arms - 1 {
                    t.push_str(&format!("arm_{a}:\n    li t1, {}\n{}", a + 1, if a + 2 < arms { "    j join\n" } else { "" }));
                }
                let r = if in_fn && !r.starts_with('t') { "t5" } else { r };
                t.push_str(&format!("join:\n    add a0, t1, {r}\n"));
                t.push_str(if in_fn { "    ret\n" } else { "    li a7, 10\n    ecall\n" });
                files = vec![("main.s".to_string(), t)];
                acc.count("join_family_programs", 1);
            }
            if k % 4 == 2 && k % 8 == 2 {
                // a function entry with several unusual predecessors at once: it is the first line of the
                // program, it is called, and one to three plain jumps lead to it (all their diagnostics
                // sit on the entry, only their order can differ)
                let jumps = 1 + rng.below(3);
                let mut t = String::from("# entry\nstart:\n    addi a0, a0, -1\n    bnez a0, again\n    ret\nagain:\n    jal start\n");
                for j in 0..jumps {
                    t.push_str(&format!("    beqz a0, skip_{j}\n    j start\nskip_{j}:\n"));
                }
                t.push_str("    j start\n");
                files = vec![("main.s".to_string(), t)];
                acc.count("several_predecessors_family_programs", 1);
            }
            if k % 8 == 4 {
                // a snippet file that is included twice, in two contexts, so that each inclusion gets its own
                // diagnostics on different lines of the same file (first: a value nobody reads at the end; second:
                // a temporary read after a call at the start): within one file name the order is by position
                let (t_a, t_b) = *rng.pick(&[("t0", "t1"), ("t3", "t4"), ("t5", "t2")]);
                let pad = "    addi a0, a0, 0\n".repeat(rng.below(3));
                let main = format!("# twice\nmain:\n    li {t_a}, 5\n    .include \"show.s\"\n    jal helper\n    .include \"show.s\"\n    mv a0, {t_b}\n    li a7, 1\n    ecall\n    li a7, 10\n    ecall\nhelper:\n    ret\n");
                let show = format!("    mv a0, {t_a}\n    li a7, 1\n    ecall\n{pad}    li {t_b}, 3\n");
                files = vec![("main.s".to_string(), main), ("show.s".to_string(), show)];
                acc.count("snippet_included_twice_family_programs", 1);
            }
            if k % 8 == 6 {
                // a function that is also the first line of the program and reads a saved register / a
                // temporary it never assigned: the program-level and the function-level lints look at
                // the same read
                let r = *rng.pick(&["s1", "s2", "s5", "s11", "t3", "a4"]);
                let second = if rng.chance(0.4) { format!("    add a1, {r}, {r}\n") } else { String::new() };
                let t = format!("# first\nf:\n    addi a0, {r}, 1\n{second}    ret\nmain:\n    jal f\n    li a7, 10\n    ecall\n");
                files = vec![("main.s".to_string(), t)];
                acc.count("function_first_family_programs", 1);
            }
            if k % 8 == 7 {
                // a statement that expands to two instructions (`lw rd, label`, `sw rs, label, tmp`, `sgez rd, rs`),
                // reached by falling through a piece of the data segment: what is said about the statement
                // as a whole is said once, not once per instruction
                let stmt = *rng.pick(&["lw a0, tbl", "sw a1, tbl, t0", "sgez a0, a1", "lb a0, tbl", "sh a1, tbl, t2"]);
                let t = if rng.chance(0.3) {
                    // (the same statement as the last, unreachable, statement of the program)
                    format!("# two-dead\n.data\ntbl: .word 1\n.text\nmain:\n    li a7, 10\n    ecall\n    {stmt}\n")
                } else {
                    format!("# two\nmain:\n    li a1, 1\n.data\n    {stmt}\n.text\n    add a0, a0, a1\n    li a7, 1\n    ecall\n    li a7, 10\n    ecall\n.data\ntbl: .word 1\n")
                };
                files = vec![("main.s".to_string(), t)];
                acc.count("two_instruction_statement_family_programs", 1);
            }
            acc.evaluations += 1;
            let replay = json!({"files": files});
            // ---------- library, fresh threads
            let mut results: Vec<Vec<String>> = Vec::new();
            let mut staged: Vec<Vec<String>> = Vec::new();
            let mut fn_orders: BTreeSet<String> = BTreeSet::new();
            let mut panicked = false;
            for _ in 0..r_lib {
                let files2 = files.clone();
                let h = std::thread::spawn(move || {
                    rva::install_panic_hook();
                    let a = guarded(|| rva::run_editor_entry(MemReader::new(&files2), "main.s"));
                    let b = guarded(|| rva::analyze_files(&files2, "main.s"));
                    let order = match &b {
                        Ok(an) => match &an.cfg {
                            Ok(cfg) => cfg.functions().keys().map(|k| k.get().as_str().to_string()).collect::<Vec<_>>().join(","),
                            Err(_) => String::new(),
                        },
                        Err(_) => String::new(),
                    };
                    (
                        a.map(|(_, d)| d.iter().map(render).collect::<Vec<_>>()).map_err(|p| p.site()),
                        b.map(|an| {
                            let mut d = an.all_diags();
                            d.sort_by(|x, y| (x.file.clone(), x.span).cmp(&(y.file.clone(), y.span)));
                            d.iter().map(|x| format!("{}#{}", x.code, render(x))).collect::<Vec<_>>()
                        })
                        .map_err(|p| p.site()),
                        order,
                    )
                });
                match h.join() {
                    Ok((Ok(a), Ok(b), order)) => {
                        results.push(a);
                        staged.push(b);
                        if !order.is_empty() {
                            fn_orders.insert(order);
                        }
                    }
                    _ => {
                        panicked = true;
                        break;
                    }
                }
            }
            if panicked {
                acc.count("analysis_panicked", 1);
                continue;
            }
            acc.count("library_runs", r_lib as u64);
            if fn_orders.len() > 1 {
                acc.count("programs_with_several_function_map_orders_seen", 1);
            }
            acc.max("max_distinct_function_map_orders", fn_orders.len() as u64);
            let n_diags = results[0].len();
            if n_diags > 0 {
                acc.nontrivial.insert(hash64(&printed.text));
            }
            // duplicates inside one result
            for res in results.iter().take(1) {
                let mut seen = BTreeSet::new();
                for item in res {
                    if !seen.insert(item.clone()) {
                        let title = item.split('|').next().unwrap_or("").to_string();
                        let multi = g.prog.lines.iter().filter(|l| matches!(l, Line::Label(s) if s.contains("_alias"))).count() > 0;
                        let dead_pair = files.len() == 1 && files[0].1.starts_with("# two-dead");
                        acc.violation(
                            format!("C10|dup|{title}|{}", if dead_pair { "two-instruction-statement-in-dead-code" } else if multi { "multi-label-function" } else { "other" }),
                            format!("the same diagnostic is reported twice: {item}"),
                            replay.clone(),
                        );
                        break;
                    }
                }
            }
            for (route, rs) in [("RVParser::run", &results), ("staged", &staged)] {
                if let Some(other) = rs.iter().find(|r| **r != rs[0]) {
                    let (field, title) = first_difference(&rs[0], other);
                    let distinct: BTreeSet<&Vec<String>> = rs.iter().collect();
                    acc.violation(
                        format!("C10|nondet|library|{field}|{title}"),
                        format!("{} runs of {route} over the same files gave {} different results; first differing field: {field} of `{title}`", rs.len(), distinct.len()),
                        replay.clone(),
                    );
                    break;
                }
            }
            // ---------- CLI, separate processes
            if k % 2 == 0 && !ctx.rva_checked.as_os_str().is_empty() {
                let sc = Scratch::new(&ctx.root, "c10");
                for (n, t) in &files {
                    sc.write(n, t);
                }
                let dirs = sc.dir.to_string_lossy().to_string();
                for mode in [vec!["--json"], vec!["--compact", "--no-color"], vec!["--no-color"], vec!["--compact", "--no-color", "--all-files"], vec!["--no-color", "--all-files"]] {
                    let mut outs: Vec<String> = Vec::new();
                    for i in 0..r_cli {
                        let exe = if i % 2 == 0 { &ctx.rva_checked } else { &ctx.rva_release };
                        let mut args = vec!["lint"];
                        args.extend(mode.iter().copied());
                        args.push("main.s");
                        let run = cli::rva(exe, &args, &sc.dir);
                        acc.count("cli_runs", 1);
                        if run.timed_out || run.code != Some(0) {
                            acc.count("cli_runs_abnormal", 1);
                            continue;
                        }
                        outs.push(run.stdout.replace(&dirs, "<DIR>"));
                    }
                    if let Some(o) = outs.iter().find(|o| **o != outs[0]) {
                        let a: Vec<&str> = outs[0].lines().collect();
                        let b: Vec<&str> = o.lines().collect();
                        let d = a.iter().zip(b.iter()).find(|(x, y)| x != y).map(|(x, y)| format!("`{x}` vs `{y}`")).unwrap_or_else(|| "different length".into());
                        let mode_name = mode.join(" ");
                        let multi_file = files.len() > 1;
                        acc.violation(
                            format!("C10|nondet|cli:{mode_name}|{}", if multi_file { "multi-file" } else { "single-file" }),
                            format!("separate `rva lint {mode_name}` processes print different output for the same files: {d}"),
                            replay.clone(),
                        );
                    }
                }
            }
            if k == 0 && shard == 0 {
                acc.sample(json!({"files": files.iter().map(|(n, t)| (n.clone(), t.lines().count())).collect::<Vec<_>>(), "diagnostics": n_diags, "library_runs": r_lib, "function_map_orders_seen": fn_orders.len()}));
            }
        }
        acc
    });
    rep.acc.merge(acc);
    rep.require("library_runs", 500);
    rep.require("cli_runs", 100);
    rep.require("programs_with_several_function_map_orders_seen", 1);
    rep.finish()
}
