//! C06 - linting any input terminates without crashing.
//!
//! Inputs run in child processes (`rvmon worker`), so that a stack overflow, an abort or a
//! hang is attributed to the input being processed; the CLI is exercised in every output mode.

use crate::cli::{self, Scratch};
use crate::hostile;
use crate::report::{Acc, Ctx, Report};
use crate::rng::{hash64, Rng};
use crate::rva::{self, guarded, MemReader};
use serde_json::json;
use std::io::{BufRead, BufReader, Write};
use std::process::{Command, Stdio};
use std::time::{Duration, Instant};

/// Worker: read a JSON list of inputs from `path`, lint each through the library entry point,
/// report one line per input on stdout.
pub fn worker(path: &str) -> i32 {
    rva::install_panic_hook();
    let text = std::fs::read_to_string(path).expect("batch file");
    let inputs: Vec<String> = serde_json::from_str(&text).expect("batch json");
    let out = std::io::stdout();
    for (k, inp) in inputs.iter().enumerate() {
        {
            let mut o = out.lock();
            let _ = writeln!(o, "BEGIN {k}");
            let _ = o.flush();
        }
        let t0 = Instant::now();
        let r = guarded(|| {
            let (_, d) = rva::run_editor_entry(MemReader::single("main.s", inp), "main.s");
            d.len()
        });
        let sweeps = (
            riscv_analysis::verif_hooks::read(riscv_analysis::verif_hooks::Pass::AvailableValue),
            riscv_analysis::verif_hooks::read(riscv_analysis::verif_hooks::Pass::Liveness),
        );
        let mut o = out.lock();
        match r {
            Ok(n) => {
                let _ = writeln!(o, "END {k} ok {n} {} {} {}", t0.elapsed().as_millis(), sweeps.0, sweeps.1);
            }
            Err(p) => {
                let _ = writeln!(o, "END {k} panic {}|{}|{}", p.site(), p.class(), p.msg.replace('\n', " ").chars().take(120).collect::<String>());
            }
        }
        let _ = o.flush();
    }
    0
}

#[derive(Debug)]
enum Outcome {
    Ok { diags: usize, millis: u64, sweeps: (u64, u64) },
    Panic(String),
    Died { signal: Option<i32>, code: Option<i32>, stderr: String },
    Hang,
}

/// Run a batch in worker children, restarting after the input a child died on.
fn run_batch(ctx: &Ctx, exe: &std::path::Path, inputs: &[String], per_input_timeout: Duration) -> Vec<Outcome> {
    let mut results: Vec<Outcome> = Vec::new();
    let mut start = 0;
    let sc = Scratch::new(&ctx.root, "c06w");
    while start < inputs.len() {
        let batch: Vec<&String> = inputs[start..].iter().collect();
        let path = sc.write(&format!("batch{start}.json"), &serde_json::to_string(&batch).unwrap());
        let mut child = Command::new("sh")
            .arg("-c")
            .arg("ulimit -v 4194304; ulimit -c 0; exec \"$0\" \"$@\"")
            .arg(exe)
            .arg("worker")
            .arg(&path)
            .stdin(Stdio::null())
            .stdout(Stdio::piped())
            .stderr(Stdio::piped())
            .spawn()
            .expect("spawn worker");
        let stdout = child.stdout.take().unwrap();
        let (tx, rx) = std::sync::mpsc::channel::<String>();
        let reader = std::thread::spawn(move || {
            for line in BufReader::new(stdout).lines().map_while(Result::ok) {
                if tx.send(line).is_err() {
                    break;
                }
            }
        });
        let mut in_progress: Option<usize> = None;
        let mut done_in_batch = 0usize;
        let mut hang = false;
        loop {
            match rx.recv_timeout(per_input_timeout) {
                Ok(line) => {
                    if let Some(k) = line.strip_prefix("BEGIN ") {
                        in_progress = k.trim().parse().ok();
                    } else if let Some(rest) = line.strip_prefix("END ") {
                        let mut it = rest.splitn(3, ' ');
                        let _k = it.next();
                        let status = it.next().unwrap_or("");
                        let tail = it.next().unwrap_or("");
                        if status == "ok" {
                            let f: Vec<u64> = tail.split(' ').filter_map(|x| x.parse().ok()).collect();
                            results.push(Outcome::Ok { diags: *f.first().unwrap_or(&0) as usize, millis: *f.get(1).unwrap_or(&0), sweeps: (*f.get(2).unwrap_or(&0), *f.get(3).unwrap_or(&0)) });
                        } else {
                            results.push(Outcome::Panic(tail.to_string()));
                        }
                        in_progress = None;
                        done_in_batch += 1;
                    }
                }
                Err(std::sync::mpsc::RecvTimeoutError::Timeout) => {
                    hang = true;
                    let _ = child.kill();
                    break;
                }
                Err(std::sync::mpsc::RecvTimeoutError::Disconnected) => break,
            }
        }
        let status = child.wait().expect("wait");
        let _ = reader.join();
        let mut err = String::new();
        if let Some(mut e) = child.stderr.take() {
            use std::io::Read;
            let _ = e.read_to_string(&mut err);
        }
        if done_in_batch == batch.len() {
            break;
        }
        // the child died or hung on input `in_progress`
        use std::os::unix::process::ExitStatusExt;
        let _ = in_progress;
        results.push(if hang { Outcome::Hang } else { Outcome::Died { signal: status.signal(), code: status.code(), stderr: err.lines().last().unwrap_or("").chars().take(160).collect() } });
        start += done_in_batch + 1;
    }
    results
}

fn input_class(name: &str) -> String {
    name.split(':').next().unwrap_or(name).to_string()
}

#[allow(clippy::too_many_lines)]
pub fn run(ctx: &Ctx) -> i32 {
    let build = if ctx.checked_build { "checked" } else { "release" };
    let mut rep = Report::new(
        ctx,
        "hostile inputs: random Unicode / control characters, token soup over the analyzer's own vocabulary (all mnemonics, registers, directives, CSR names, punctuation, 32-bit boundary numbers), \
         line- and token-level mutations of valid programs (deleted / duplicated / swapped / truncated lines, stray characters, CR, unterminated strings, .macro without end, huge .word lists, stack-pointer and constant overflows), valid programs with odd semantics (jumps and calls retargeted to arbitrary labels, returns turned into jumps and back, sp reloaded from memory / copied through a frame pointer / moved inside loops, narrow stores through it, labels named like the analyzer's internal ones), the constant-folding tables of C08 (every operator x 24x24 boundary operands), \
         structurally extreme inputs in a scaling series (n, 2n, 4n, 8n: dots, parentheses, labels, long lines, long straight-line code, many functions, branch ladders), sizes up to 64 KiB. Each input is linted through RVParser::run \
         in a child process (4 GiB address space, 8 MiB stack, 20 s watchdog, sweep limit hook) in this build of the harness, and a sample through `rva lint` in pretty / --compact / --json / --yaml / --debug / --all-files / --no-output, dev and release builds. \
         Refuting events: panic, death by signal (stack overflow, abort), sweep limit exceeded, watchdog. distinct_nontrivial = distinct inputs linted",
    );
    rep.assume("a watchdog firing is reported as non-termination only together with the logical evidence (the worker did not finish one input in 20 s although inputs are <= 64 KiB)");
    rep.assume("polynomial time is restated as: sweep counters stay below a linear bound and the recorded scaling series shows the growth");
    let mut rng = Rng::derive(ctx.seed, 6, 0);
    let n_each = ctx.tier.pick(700, 20000);
    let mut inputs: Vec<(String, String)> = Vec::new();
    for _ in 0..n_each {
        let len = *rng.pick(&[8usize, 64, 300, 2000, 20_000]);
        inputs.push(("unicode".to_string(), hostile::random_unicode(&mut rng, len)));
        inputs.push(("token-soup".to_string(), hostile::token_soup(&mut rng, len)));
        inputs.push(("mutated-program".to_string(), hostile::mutate_program(&mut rng)));
        for _ in 0..4 {
            let odd = hostile::semantic_mutant(&mut rng);
            inputs.push(("semantic-mutant".to_string(), crate::print::print(&odd, &crate::print::Style::plain(), &mut Rng::new(1)).text));
        }
        for _ in 0..4 {
            let cyc = crate::shapes::linking_jump_cycle_family(&mut rng);
            inputs.push(("linking-jump-cycle".to_string(), crate::print::print(&cyc.prog, &crate::print::Style::plain(), &mut Rng::new(1)).text));
        }
    }
    // the folding tables of C08: every boundary pair of every operator reaches the constant folder
    // through the whole pipeline (a panic there is this property's subject, a wrong value C08's)
    for op in crate::ast::ALL_ALU {
        let (p, _) = super::c08::fold_table_program(op);
        inputs.push(("fold-table".to_string(), crate::print::print(&p, &crate::print::Style::base(), &mut Rng::new(1)).text));
    }
    for scale in [1_000usize, 2_000, 4_000, 8_000, 16_000, 32_000, 64_000] {
        for (name, text) in hostile::extremes(&mut rng, scale) {
            inputs.push((format!("extreme:{name}:{scale}"), text));
        }
    }
    // ---------- library, in worker children (one batch per job)
    let jobs = ctx.jobs;
    let chunks: Vec<Vec<(String, String)>> = (0..jobs).map(|j| inputs.iter().enumerate().filter(|(i, _)| i % jobs == j).map(|(_, x)| x.clone()).collect()).collect();
    let exe = ctx.self_exe.clone();
    let results: Vec<(Vec<(String, String)>, Vec<Outcome>)> = std::thread::scope(|s| {
        let hs: Vec<_> = chunks
            .into_iter()
            .map(|chunk| {
                let exe = exe.clone();
                s.spawn(move || {
                    let texts: Vec<String> = chunk.iter().map(|(_, t)| t.clone()).collect();
                    let out = run_batch(ctx, &exe, &texts, Duration::from_secs(20));
                    (chunk, out)
                })
            })
            .collect();
        hs.into_iter().filter_map(|h| h.join().ok()).collect()
    });
    let mut acc = Acc::new();
    let mut scaling: std::collections::BTreeMap<String, Vec<(usize, u64, u64)>> = std::collections::BTreeMap::new();
    for (chunk, outs) in results {
        for ((name, text), out) in chunk.iter().zip(outs.iter()) {
            acc.evaluations += 1;
            acc.nontrivial.insert(hash64(text));
            acc.count(&format!("inputs:{}", input_class(name)), 1);
            let replay = json!({"class": name, "input": text.chars().take(4000).collect::<String>(), "input_chars": text.chars().count(), "harness_build": build});
            match out {
                Outcome::Ok { diags, millis, sweeps } => {
                    acc.count("linted_ok", 1);
                    acc.count("diagnostics_returned", *diags as u64);
                    acc.max("max_millis_one_input", *millis);
                    acc.max("max_sweeps_available_values", sweeps.0);
                    acc.max("max_sweeps_liveness", sweeps.1);
                    if let Some(rest) = name.strip_prefix("extreme:") {
                        let mut it = rest.split(':');
                        let shape = it.next().unwrap_or("").to_string();
                        let scale: usize = it.next().and_then(|x| x.parse().ok()).unwrap_or(0);
                        scaling.entry(shape).or_default().push((scale, *millis, sweeps.0 + sweeps.1));
                    }
                }
                Outcome::Panic(info) => {
                    let mut f = info.split('|');
                    let site = f.next().unwrap_or("");
                    let class = f.next().unwrap_or("");
                    let msg = f.next().unwrap_or("");
                    let kind = if class == "sweep-limit" { "diverge" } else { "panic" };
                    // a fixed-point loop that does not stop is named by its pass, not by the hook's line
                    let site = if class == "sweep-limit" { if msg.contains("Liveness") { "liveness" } else if msg.contains("AvailableValue") { "available-values" } else { "dead-code" } } else { site };
                    acc.violation(format!("C06|{kind}|{site}|{class}"), format!("linting a {} input panics at {site}: {msg}", input_class(name)), replay);
                }
                Outcome::Died { signal, code, stderr } => {
                    let what = if stderr.contains("overflowed its stack") || *signal == Some(11) { "stack-overflow" } else if stderr.contains("memory allocation") { "oom" } else { "abort" };
                    acc.violation(
                        format!("C06|{what}|library|{}", input_class(name).replace("extreme", "").trim_matches(':')),
                        format!("the worker process died (signal {signal:?}, code {code:?}, `{stderr}`) while linting `{name}` ({} chars)", text.chars().count()),
                        replay,
                    );
                }
                Outcome::Hang => {
                    acc.violation(format!("C06|hang|library|{}", input_class(name)), format!("linting `{name}` ({} chars) did not finish within 20 s", text.chars().count()), replay);
                }
            }
        }
        if outs.len() < chunk.len() {
            acc.inconclusive(format!("worker-protocol-lost-inputs:{}", chunk.len() - outs.len()));
        }
    }
    let series: Vec<serde_json::Value> = scaling.iter().map(|(k, v)| json!({"shape": k, "scale_millis_sweeps": v})).collect();
    rep.extra.insert("scaling_series".into(), json!(series));
    // growth check on logical counters: sweeps must not grow with the input size for straight-line shapes
    for (shape, v) in &scaling {
        if let (Some(a), Some(b)) = (v.first(), v.last()) {
            if b.2 > a.2.max(4) * 64 {
                acc.violation(format!("C06|diverge|sweeps-grow|{shape}"), format!("sweep count grows from {} to {} between scale {} and {}", a.2, b.2, a.0, b.0), json!({"shape": shape}));
            }
        }
    }
    // ---------- CLI modes on a sample of the inputs (only in the checked run, it uses both rva builds itself)
    if ctx.checked_build && !ctx.rva_checked.as_os_str().is_empty() {
        // every 7th (5th) input in one mode each, and the small structural extremes in every mode
        let mut sample: Vec<&(String, String)> = inputs.iter().filter(|(_, t)| t.len() < 30_000).step_by(ctx.tier.pick(7, 5)).collect();
        for x in inputs.iter().filter(|(n, _)| n.starts_with("extreme:") && n.ends_with(":1000")) {
            for _ in 0..8 {
                sample.push(x);
            }
        }
        let modes: [&[&str]; 8] = [&[], &["--compact"], &["--no-color"], &["--json"], &["--yaml"], &["--debug"], &["--all-files"], &["--no-output"]];
        let cacc = std::sync::Mutex::new(Acc::new());
        std::thread::scope(|s| {
            for j in 0..jobs {
                let sample = &sample;
                let cacc = &cacc;
                s.spawn(move || {
                    let mut local = Acc::new();
                    let sc = Scratch::new(&ctx.root, "c06c");
                    for (i, (name, text)) in sample.iter().enumerate() {
                        if i % jobs != j {
                            continue;
                        }
                        sc.write("main.s", text);
                        let mode = modes[i % modes.len()];
                        for exe in [&ctx.rva_checked, &ctx.rva_release] {
                            let mut args = vec!["lint"];
                            args.extend(mode.iter().copied());
                            args.push("main.s");
                            let run = cli::rva(exe, &args, &sc.dir);
                            local.evaluations += 1;
                            local.count("cli_runs", 1);
                            local.note("cli_modes", if mode.is_empty() { "pretty".to_string() } else { mode.join(" ") });
                            let b = if exe == &ctx.rva_checked { "dev" } else { "release" };
                            let replay = json!({"class": name, "mode": mode, "build": b, "input": text.chars().take(4000).collect::<String>()});
                            if run.timed_out {
                                local.violation(format!("C06|hang|cli:{}|{}", mode.join(" "), input_class(name)), format!("`rva lint {}` did not finish within 20 s on a {} input", mode.join(" "), name), replay);
                            } else if run.panicked() || run.signal.is_some() || run.code != Some(0) {
                                let first = run.stderr.lines().find(|l| l.contains("panicked at")).unwrap_or("").to_string();
                                let site = first.split("panicked at ").nth(1).unwrap_or("").split(':').take(2).collect::<Vec<_>>().join(":");
                                local.violation(
                                    format!("C06|panic|cli|{}", if site.is_empty() { format!("signal-{:?}", run.signal) } else { site.clone() }),
                                    format!("`rva lint {}` ({b}) crashes on a {} input: code {:?} signal {:?} {}", mode.join(" "), name, run.code, run.signal, run.stderr.lines().take(2).collect::<Vec<_>>().join(" | ").chars().take(200).collect::<String>()),
                                    replay,
                                );
                            } else {
                                local.count("cli_runs_ok", 1);
                            }
                        }
                    }
                    cacc.lock().unwrap().merge(local);
                });
            }
        });
        acc.merge(cacc.into_inner().unwrap());
        // ---------- includes of things that are no regular files (on-disk include graphs): devices that never
        // end, pipes nobody writes to, directories, dangling and circular symbolic links. Time and memory must
        // stay bounded by the size of the *input* (a few dozen bytes here).
        {
            let sc = Scratch::new(&ctx.root, "c06s");
            let fifo = sc.dir.join("pipe");
            let _ = std::process::Command::new("mkfifo").arg(&fifo).status();
            let _ = std::os::unix::fs::symlink("nowhere.s", sc.dir.join("dangling.s"));
            let _ = std::os::unix::fs::symlink("loop_b.s", sc.dir.join("loop_a.s"));
            let _ = std::os::unix::fs::symlink("loop_a.s", sc.dir.join("loop_b.s"));
            let _ = std::fs::create_dir_all(sc.dir.join("dir.s"));
            let long = "x".repeat(5000);
            let specials: Vec<(&str, String)> = vec![
                ("dev-zero", "/dev/zero".into()),
                ("dev-urandom", "/dev/urandom".into()),
                ("dev-null", "/dev/null".into()),
                ("dev-full", "/dev/full".into()),
                ("fifo-without-writer", "pipe".into()),
                ("directory", "dir.s".into()),
                ("current-directory", ".".into()),
                ("dangling-symlink", "dangling.s".into()),
                ("symlink-loop", "loop_a.s".into()),
                // (kernel pseudo-files such as /proc/kmsg call themselves regular files and block on read:
                // no reader can tell, they are not part of "on-disk files" and are not demanded)
                ("overlong-name", long),
                ("empty-name", String::new()),
            ];
            // an include graph whose expansion is exponential in its size: 21 two-line files, each including the next one twice
            {
                let n = 20;
                for i in 0..n {
                    sc.write(&format!("bomb/f{i}.s"), &format!(".include \"f{}.s\"\n.include \"f{}.s\"\n", i + 1, i + 1));
                }
                sc.write(&format!("bomb/f{n}.s"), "    addi t0, t0, 1\n");
                let text = ".include \"f0.s\"\nmain:\n    li a7, 10\n    ecall\n";
                sc.write("bomb/main.s", text);
                let bytes = 21 * 40 + text.len();
                for (b, exe) in [("dev", &ctx.rva_checked), ("release", &ctx.rva_release)] {
                    let (run, rss) = cli::run_measured(exe, &["lint", "--compact", "--no-color", "bomb/main.s"], &sc.dir, 4 * 1024 * 1024, std::time::Duration::from_secs(20));
                    acc.evaluations += 1;
                    acc.count("include_doubling_chains", 1);
                    let replay = json!({"class": "include-doubling-chain", "build": b, "files": "bomb/f<i>.s = two includes of f<i+1>.s for i < 20, f20.s = one instruction, main.s includes f0.s"});
                    if run.timed_out {
                        acc.violation("C06|hang|cli|include-doubling-chain".to_string(), format!("`rva lint` ({b}) did not finish within 20 s on an include graph of {bytes} bytes (21 files, each including the next one twice)"), replay);
                    } else if run.panicked() || run.signal.is_some() || run.code != Some(0) {
                        acc.violation("C06|panic|cli|include-doubling-chain".to_string(), format!("`rva lint` ({b}) ends abnormally on the include-doubling chain: code {:?} signal {:?} {}", run.code, run.signal, run.stderr.lines().take(2).collect::<Vec<_>>().join(" | ").chars().take(200).collect::<String>()), replay);
                    } else if rss.is_some_and(|k| k > 512 * 1024) {
                        acc.violation("C06|memory|cli|include-doubling-chain".to_string(), format!("`rva lint` ({b}) used {rss:?} KiB on an include graph of {bytes} bytes"), replay);
                    } else {
                        acc.count("include_doubling_chains_ok", 1);
                    }
                }
            }
            // a base file whose *name* is not UTF-8 (file names are bytes on this platform)
            {
                use std::os::unix::ffi::OsStringExt;
                for (what, raw) in [("existing", b"bad\xff.s".to_vec()), ("missing", b"gone\xfe\xff.s".to_vec())] {
                    let name = std::ffi::OsString::from_vec(raw);
                    if what == "existing" {
                        let _ = std::fs::write(sc.dir.join(&name), "main:\n    li a7, 10\n    ecall\n");
                    }
                    for mode in ["--compact", "--json"] {
                        for (b, exe) in [("dev", &ctx.rva_checked), ("release", &ctx.rva_release)] {
                            let args = vec!["lint".into(), mode.into(), name.clone()];
                            let (run, _) = cli::run_measured_os(exe, &args, &sc.dir, 4 * 1024 * 1024, std::time::Duration::from_secs(10));
                            acc.evaluations += 1;
                            acc.count("non_utf8_file_names", 1);
                            if run.timed_out || run.panicked() || run.signal.is_some() {
                                acc.violation(
                                    format!("C06|panic|cli|file-name-not-utf8"),
                                    format!("`rva lint {mode}` ({b}) on an {what} file whose name is not UTF-8: code {:?} signal {:?} {}", run.code, run.signal, run.stderr.lines().take(2).collect::<Vec<_>>().join(" | ").chars().take(200).collect::<String>()),
                                    json!({"class": "file-name-not-utf8", "build": b, "mode": mode, "name_bytes": name.clone().into_vec()}),
                                );
                            }
                        }
                    }
                }
            }
            // (the linted file also lies in a sub-directory while rva runs one level above it: a relative include is
            // relative to the including file, not to the working directory)
            let sub = sc.dir.join("src");
            let _ = std::fs::create_dir_all(&sub);
            let _ = std::process::Command::new("mkfifo").arg(sub.join("pipe")).status();
            let _ = std::os::unix::fs::symlink("/dev/zero", sub.join("zero.s"));
            let _ = std::fs::create_dir_all(sub.join("dir.s"));
            let _ = std::os::unix::fs::symlink("nowhere.s", sub.join("dangling.s"));
            let _ = std::os::unix::fs::symlink("loop_b.s", sub.join("loop_a.s"));
            let _ = std::os::unix::fs::symlink("loop_a.s", sub.join("loop_b.s"));
            let mut specials = specials;
            specials.push(("symlink-to-dev-zero", "zero.s".into()));
            for (what, path) in &specials {
                let text = format!("main:\n    li a7, 10\n    ecall\n.include \"{path}\"\n");
                sc.write("main.s", &text);
                sc.write("src/main.s", &text);
                let _ = std::os::unix::fs::symlink("/dev/zero", sc.dir.join("zero.s"));
                let elsewhere = sc.dir.join("elsewhere");
                let _ = std::fs::create_dir_all(&elsewhere);
                for (b, exe, file) in [("dev", &ctx.rva_checked, "main.s"), ("release", &ctx.rva_release, "main.s"), ("dev", &ctx.rva_checked, "../src/main.s"), ("release", &ctx.rva_release, "../src/main.s")] {
                    // (the second pair runs in an empty directory: nothing the include names exists relative to it)
                    let cwd = if file.starts_with("..") { &elsewhere } else { &sc.dir };
                    let (run, rss) = cli::run_measured(exe, &["lint", "--compact", "--no-color", "--all-files", file], cwd, 4 * 1024 * 1024, std::time::Duration::from_secs(10));
                    acc.evaluations += 1;
                    acc.count("special_file_includes", 1);
                    acc.note("special_files", what.to_string());
                    let replay = json!({"class": format!("include-of-{what}"), "build": b, "linted": file, "files": [["main.s", text]], "note": "run in a directory prepared like props/c06.rs does (mkfifo pipe, symlinks; the same under src/)"});
                    if run.timed_out {
                        acc.violation(format!("C06|hang|cli|include-of-{what}"), format!("`rva lint` ({b}) did not finish within 10 s on a {}-byte file that includes {what} (`{}`)", text.len(), path.chars().take(40).collect::<String>()), replay);
                    } else if run.panicked() || run.signal.is_some() || run.code != Some(0) {
                        acc.violation(format!("C06|panic|cli|include-of-{what}"), format!("`rva lint` ({b}) crashes on a file that includes {what}: code {:?} signal {:?} {}", run.code, run.signal, run.stderr.lines().take(2).collect::<Vec<_>>().join(" | ").chars().take(200).collect::<String>()), replay);
                    } else if rss.is_some_and(|k| k > 512 * 1024) || run.stdout.contains("out of memory") {
                        acc.violation(format!("C06|memory|cli|include-of-{what}"), format!("`rva lint` ({b}) used {:?} KiB (limit of the run: 4 GiB; `{}`) on a {}-byte file that includes {what}", rss, run.stdout.lines().next().unwrap_or("").chars().take(120).collect::<String>(), text.len()), replay);
                    } else {
                        acc.count("special_file_includes_ok", 1);
                        if let Some(k) = rss {
                            acc.count("special_file_includes_max_rss_kib_sum", k);
                        }
                    }
                }
            }
        }
    }
    rep.acc.merge(acc);
    rep.require("linted_ok", 300);
    rep.acc.sample(json!({"class": "token-soup", "input": hostile::token_soup(&mut Rng::new(ctx.seed), 80)}));
    rep.acc.sample(json!({"class": "unicode", "input": hostile::random_unicode(&mut Rng::new(ctx.seed), 40)}));
    rep.finish()
}
