//! C05 - each kind of convention violation is reported where it occurs.

use super::common::*;
use crate::ast::*;
use crate::gen::{Inject, Profile, Site, ALL_INJECT};
use crate::print::{InsPrint, Style};
use crate::report::{run_sharded, Acc, Ctx, Report};
use crate::rng::{hash64, Rng};
use crate::rva::Diag;
use serde_json::json;

pub fn expected_codes(k: Inject) -> &'static [&'static str] {
    match k {
        Inject::SavedNoRestore | Inject::SavedUnsavedWrite => {
            &["overwrite-callee-saved-register", "lost-register-value"]
        }
        Inject::SpNoRestore => &["overwrite-callee-saved-register", "invalid-stack-position"],
        Inject::RaClobbered => &["overwrite-callee-saved-register"],
        Inject::TempAfterCall => &["invalid-use-after-call"],
        // a never-assigned temporary that is read behind a call is reported as a use after the
        // call (liveness ends at the call); both kinds name the same problem at the same operand
        Inject::ReadUnassigned => &["invalid-use-before-assignment", "invalid-use-after-call"],
        Inject::DeadAssign => &["dead-assignment"],
        Inject::WriteZero => &["save-to-zero"],
        Inject::StackAbove => &["invalid-stack-offset-usage"],
        Inject::InData => &["invalid-segment"],
        Inject::UnknownEcall => &["unknown-ecall"],
        Inject::Unreachable => &["unreachable-code"],
        Inject::JumpToFunction => &["invalid-jump-to-function"],
        Inject::FallThrough => &["node-in-many-functions"],
        Inject::FirstIsFunction => &["first-instruction-is-function"],
    }
}

fn overlaps(d: &Diag, line: usize, c0: usize, c1: usize) -> bool {
    d.file == FILE && d.span.start.line == line && d.span.start.col <= c1 && d.span.end.col >= c0
}

/// Does diagnostic `d` sit on the instruction printed as `ip` (on the operand naming `reg`
/// when the instruction spells that register out)?
fn on_instruction(d: &Diag, ip: &InsPrint, reg: Option<Reg>) -> bool {
    if !overlaps(d, ip.line, ip.full.0, ip.full.1) {
        return false;
    }
    if let Some(r) = reg {
        let named: Vec<_> = ip.ops.iter().filter(|o| reg_from_name(&o.text) == Some(r)).collect();
        if !named.is_empty() {
            return named.iter().any(|o| overlaps(d, ip.line, o.c0, o.c1));
        }
    }
    true
}

pub struct Verdict {
    pub ok: bool,
    pub why: String,
}

/// Judge the diagnostics of a program with one planted violation.
pub fn judge(c: &Case, site: &Site, diags: &[Diag]) -> Verdict {
    let codes = expected_codes(site.kind);
    let of_kind: Vec<&Diag> = diags.iter().filter(|d| codes.contains(&d.code.as_str())).collect();
    if of_kind.is_empty() {
        return Verdict { ok: false, why: "missing".into() };
    }
    // printed instruction of a `Program::lines` index
    let ins_of = |line_idx: usize| -> Option<&InsPrint> {
        let pl = *c.printed.line_of_src.get(line_idx)?;
        let k = *c.printed.line_to_ins.get(&pl)?;
        c.printed.ins.get(k)
    };
    let ok = match site.kind {
        Inject::Unreachable => site.lines.iter().all(|l| match ins_of(*l) {
            Some(ip) => of_kind.iter().any(|d| on_instruction(d, ip, None)),
            None => false,
        }),
        Inject::FallThrough => {
            // on the label of the function that is fallen into
            // (any of the labels on that entry: the function's name or one of its aliases)
            match site.label.as_ref() {
                Some(l) => c
                    .printed
                    .label_defs
                    .iter()
                    .filter(|(name, _)| *name == l || name.starts_with(&format!("{l}_alias")))
                    .any(|(_, (line, c0, c1))| of_kind.iter().any(|d| overlaps(d, *line, *c0, *c1 + 1))),
                None => false,
            }
        }
        Inject::JumpToFunction => {
            let at_entry = site.lines.iter().filter_map(|l| ins_of(*l)).any(|ip| of_kind.iter().any(|d| on_instruction(d, ip, None)));
            let at_jump = site.related_lines.iter().filter_map(|l| ins_of(*l)).any(|ip| {
                of_kind.iter().any(|d| {
                    d.related.iter().any(|(f, sp, _)| f == FILE && sp.start.line == ip.line && sp.start.col <= ip.full.1 && sp.end.col >= ip.full.0)
                        || on_instruction(d, ip, None)
                })
            });
            at_entry || at_jump
        }
        _ => site
            .lines
            .iter()
            .filter_map(|l| ins_of(*l))
            .any(|ip| of_kind.iter().any(|d| on_instruction(d, ip, site.reg))),
    };
    if ok {
        Verdict { ok: true, why: String::new() }
    } else {
        Verdict { ok: false, why: "wrong-location".into() }
    }
}

/// Does every path from the entry of the enclosing function (or of the program) to the planted
/// instruction pass through an ecall? (Computed on the harness AST, independent of the tool.)
fn behind_ecall(c: &Case, site: &Site) -> bool {
    let Some(first) = site.lines.first() else {
        return false;
    };
    let flat = c.g.prog.flatten();
    let Some(target) = flat.line_of.iter().position(|l| l == first) else {
        return false;
    };
    // entry: the closest call target at or above the site, else the start of the program
    let called: std::collections::HashSet<&str> =
        flat.ins.iter().filter_map(|i| if let Ins::Jal { rd: 1, label } = i { Some(label.as_str()) } else { None }).collect();
    let mut entry = 0;
    for (l, idx) in &flat.code_labels {
        if called.contains(l.as_str()) && *idx <= target && *idx > entry {
            entry = *idx;
        }
    }
    let mut seen = vec![false; flat.ins.len() + 1];
    let mut stack = vec![entry];
    while let Some(i) = stack.pop() {
        if i >= flat.ins.len() || seen[i] {
            continue;
        }
        seen[i] = true;
        if i == target {
            return false; // reached without crossing an ecall
        }
        match &flat.ins[i] {
            Ins::Ecall => {}
            Ins::Branch { label, .. } => {
                stack.push(i + 1);
                if let Some(t) = flat.code_labels.get(label) {
                    stack.push(*t);
                }
            }
            Ins::Jal { rd: 1, .. } => stack.push(i + 1),
            Ins::Jal { label, .. } => {
                if let Some(t) = flat.code_labels.get(label) {
                    stack.push(*t);
                }
            }
            Ins::Jalr { .. } => {}
            _ => stack.push(i + 1),
        }
    }
    true
}

/// Can a return be reached from the planted instruction (calls fall through, an exit ecall ends the
/// path)? A saved register that is overwritten on a path that only ever leaves through `exit` is
/// never seen by a caller: the planted line is then no violation. (Harness AST only.)
fn can_reach_return(c: &Case, site: &Site) -> bool {
    let Some(first) = site.lines.first() else {
        return true;
    };
    let flat = c.g.prog.flatten();
    let Some(start) = flat.line_of.iter().position(|l| l == first) else {
        return true;
    };
    let is_exit = |i: usize| i > 0 && matches!(&flat.ins[i], Ins::Ecall) && matches!(&flat.ins[i - 1], Ins::AluI { rd: 17, rs1: 0, imm: 10 | 93, .. });
    let mut seen = vec![false; flat.ins.len() + 1];
    let mut stack = vec![start];
    while let Some(i) = stack.pop() {
        if i >= flat.ins.len() || seen[i] {
            continue;
        }
        seen[i] = true;
        match &flat.ins[i] {
            Ins::Ecall if is_exit(i) => {}
            Ins::Branch { label, .. } => {
                stack.push(i + 1);
                if let Some(t) = flat.code_labels.get(label) {
                    stack.push(*t);
                }
            }
            Ins::Jal { rd: 1, .. } => stack.push(i + 1),
            Ins::Jal { label, .. } => {
                if let Some(t) = flat.code_labels.get(label) {
                    stack.push(*t);
                }
            }
            Ins::Jalr { .. } => return true,
            _ => stack.push(i + 1),
        }
    }
    false
}

fn reg_class(r: Option<Reg>) -> &'static str {
    match r {
        None => "-",
        Some(0) => "zero",
        Some(1) => "ra",
        Some(2) => "sp",
        Some(r) if is_saved(r) => "saved",
        Some(r) if is_temp(r) => "temp",
        Some(r) if is_arg(r) => "arg",
        _ => "other",
    }
}

pub fn run(ctx: &Ctx) -> i32 {
    let mut rep = Report::new(
        ctx,
        "a conforming program (same generator as C04) with exactly one planted violation of one of 15 classes at a random admissible \
         site; the program without the planted lines must be diagnostic-free in this run (else the case is discarded and counted); \
         a diagnostic of the expected kind must sit on the offending instruction / register operand (label for fall-through; entry or \
         related jump for jump-to-function). distinct_nontrivial = distinct (class, program text) pairs judged",
    );
    rep.assume("expected-kind table of DESIGN.md C05; collateral diagnostics are allowed");
    let per_class: usize = ctx.tier.pick(160, 5000);
    let prof = Profile::conforming();
    let jobs = ctx.jobs;
    let acc = run_sharded(ctx, |shard| {
        let mut acc = Acc::new();
        for (ci, kind) in ALL_INJECT.iter().enumerate() {
            for k in 0..per_class {
                if (ci * per_class + k) % jobs != shard {
                    continue;
                }
                let mut rng = Rng::derive(ctx.seed, 5_000 + ci as u64, k as u64);
                let style = if rng.chance(0.5) { Style::plain() } else { Style::random(&mut rng) };
                let c = make_case(&mut rng, &prof, Some(*kind), Some(&style));
                acc.evaluations += 1;
                let Some(site) = c.g.site.clone() else {
                    acc.count(&format!("not_placed:{}", kind.name()), 1);
                    continue;
                };
                if matches!(kind, Inject::SavedUnsavedWrite | Inject::SavedNoRestore | Inject::SpNoRestore | Inject::RaClobbered) && !can_reach_return(&c, &site) {
                    // planted on a path that can only leave through `exit`: not a violation
                    acc.count("site_cannot_return_discarded", 1);
                    continue;
                }
                // the base program must be clean in this run
                let base_text = crate::print::print(&c.g.base, &Style::plain(), &mut Rng::new(0)).text;
                match analyze(&base_text) {
                    Ok(a) if a.all_diags().is_empty() => {}
                    _ => {
                        acc.count("base_not_clean_discarded", 1);
                        continue;
                    }
                }
                let a = match analyze(&c.printed.text) {
                    Ok(a) => a,
                    Err(p) => {
                        acc.violation(
                            format!("C05|{}|panic|{}", kind.name(), p.site()),
                            format!("analysis panics at {}: {}", p.site(), p.msg),
                            json!({"program": c.printed.text}),
                        );
                        continue;
                    }
                };
                let mut diags = a.all_diags();
                // ---- every fourth case: the same program spread over an include tree; a diagnostic
                // must then sit in the file, and on the line of that file, where the offending text is
                let mut spread = false;
                if k % 4 == 3 {
                    let tree = super::c15::make_tree(&c.printed.text, &mut rng, 2);
                    if tree.files.len() > 1 {
                        if let Ok(ta) = crate::rva::guarded(|| crate::rva::analyze_with(crate::rva::MemReader::new(&tree.files), FILE)) {
                            // (file, line in file) -> line of the pasted text
                            let back: std::collections::HashMap<(String, usize), usize> = tree.origin.iter().enumerate().map(|(l, o)| (o.clone(), l)).collect();
                            diags = ta
                                .all_diags()
                                .into_iter()
                                .map(|mut d| {
                                    match back.get(&(d.file.clone(), d.span.start.line)) {
                                        Some(l) => {
                                            let dl = d.span.end.line - d.span.start.line;
                                            d.span.start.line = *l;
                                            d.span.end.line = *l + dl;
                                            d.file = FILE.to_string();
                                        }
                                        // a place that holds no text of the program: it cannot be the site
                                        None => d.span.start.line = usize::MAX,
                                    }
                                    d
                                })
                                .collect();
                            spread = true;
                            acc.count("judged_in_an_include_tree", 1);
                        }
                    }
                }
                let v = judge(&c, &site, &diags);
                acc.count(&format!("judged:{}", kind.name()), 1);
                acc.note("classes_judged", kind.name());
                acc.nontrivial.insert(hash64(&format!("{}{}", kind.name(), c.printed.text)));
                // ---- a read that is *not* the planted one (the register is assigned in front of it) must not be
                // reported as well: "located on the offending instruction"
                if v.ok && *kind == Inject::ReadUnassigned {
                    let site_lines: Vec<usize> = site.lines.iter().filter_map(|l| c.printed.line_of_src.get(*l).copied()).collect();
                    if let Some(d) = diags.iter().find(|d| d.code == "invalid-use-before-assignment" && !site_lines.contains(&d.span.start.line)) {
                        let text = c.printed.text.lines().nth(d.span.start.line).unwrap_or("").trim().to_string();
                        acc.violation(
                            format!("C05|{}|innocent-read-reported|{}", kind.name(), reg_class(site.reg)),
                            format!("planted {}: besides the planted read, `{text}` (line {}) is reported as a read before assignment", kind.name(), d.span.start.line + 1),
                            json!({"program": c.printed.text, "class": kind.name(), "site_lines": site.lines, "diagnostics": diags.iter().map(diag_brief).collect::<Vec<_>>()}),
                        );
                    } else {
                        acc.count("no_innocent_read_reported", 1);
                    }
                }
                if v.ok {
                    acc.count("reported_at_site", 1);
                    if k < 1 {
                        let pl: Vec<String> = site
                            .lines
                            .iter()
                            .filter_map(|l| c.printed.line_of_src.get(*l))
                            .map(|l| c.printed.text.lines().nth(*l).unwrap_or("").trim().to_string())
                            .collect();
                        acc.sample(json!({"class": kind.name(), "planted": pl, "diagnostics": diags.iter().map(diag_brief).collect::<Vec<_>>() }));
                    }
                } else {
                    let listed: Vec<String> = diags.iter().map(diag_brief).collect();
                    let shape = if behind_ecall(&c, &site) { "|behind-ecall" } else { "" };
                    acc.violation(
                        format!("C05|{}|{}|{}{shape}", kind.name(), v.why, reg_class(site.reg)),
                        format!(
                            "planted {}{} ({}): expected {:?} at the site, got {:?}",
                            kind.name(),
                            if spread { " in a program spread over an include tree" } else { "" },
                            v.why,
                            expected_codes(*kind),
                            listed
                        ),
                        json!({"program": c.printed.text, "class": kind.name(), "site_lines": site.lines, "diagnostics": listed}),
                    );
                }
            }
        }
        acc
    });
    rep.acc.merge(acc);
    for k in ALL_INJECT {
        rep.require(&format!("judged:{}", k.name()), 5);
    }
    rep.finish()
}
