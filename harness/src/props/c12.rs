//! C12 - analysis results are a stable fixed point of the pass pipeline.

use super::common::*;
use crate::gen::{Inject, Profile};
use crate::graph::GraphView;
use crate::print::Style;
use crate::report::{run_sharded, Acc, Ctx, Report};
use crate::rng::{hash64, Rng};
use crate::rva::{self, guarded, MemReader};
use riscv_analysis::analysis::{AvailableValuePass, LivenessPass};
use riscv_analysis::cfg::Cfg;
use riscv_analysis::gen::EcallTerminationPass;
use riscv_analysis::passes::{DiagnosticManager, GenerationPass, Manager};
use riscv_analysis::verif_hooks::{self, Pass};
use serde_json::json;

fn diag_keys(cfg: &Cfg, reader: &MemReader) -> Vec<String> {
    let mut dm = DiagnosticManager::new();
    Manager::run_diagnostics(cfg, &mut dm);
    let mut v: Vec<String> = dm
        .iter()
        .map(|d| {
            let x = rva::diag_from_lint(reader, d.as_ref());
            format!("{}@{}:{}-{}", x.code, x.span.start.line, x.span.start.col, x.span.end.col)
        })
        .collect();
    v.sort();
    v
}

fn first_diff(a: &[String], b: &[String]) -> String {
    for (x, y) in a.iter().zip(b.iter()) {
        if x != y {
            // which field group differs
            let fx: Vec<&str> = x.split('|').collect();
            let fy: Vec<&str> = y.split('|').collect();
            for (k, (p, q)) in fx.iter().zip(fy.iter()).enumerate() {
                if p != q {
                    let what = match k {
                        0 | 1 => "node",
                        2 | 3 => "edge",
                        4 | 5 => "reg",
                        6 | 7 => "mem",
                        8 | 9 => "live",
                        _ => "function",
                    };
                    return format!("{what}: `{x}` vs `{y}`");
                }
            }
        }
    }
    if a.len() != b.len() {
        return "node: different number of nodes".into();
    }
    "none".into()
}

pub fn run(ctx: &Ctx) -> i32 {
    let mut rep = Report::new(
        ctx,
        "programs from the structured generator (wild and conforming profiles), trap handlers, shared tails, loop-carried slots, inherited exit numbers, semantic mutants, one epilogue file included in every arm of a function (several returns at one position of one file), plus programs with shared code (a function entered by a plain jump \
         or by fall-through, i.e. overlapping functions); after Manager::gen_full_cfg a canonical snapshot of every edge, register/memory fact, liveness set and \
         function annotation is taken through the public getters; then random sequences (length 1-6, all three singletons always) of extra \
         AvailableValuePass / EcallTerminationPass / LivenessPass runs must leave snapshot and diagnostics unchanged; the same parsed program is analysed twice; \
         the verif-hooks sweep counters must stay below 3*(4n+16) / (4n+16) / (n+2). distinct_nontrivial = distinct programs with >= 1 loop or call whose snapshots were compared",
    );
    rep.assume("reproducibility is not compared for programs with overlapping functions (hand-written shapes, planted jumps into functions, semantic mutants): the known finding of C11 makes the exit of such functions stale");
    let per_shard = ctx.tier.pick(80, 2000);
    let acc = run_sharded(ctx, |shard| {
        let mut acc = Acc::new();
        // (the last `mazes` rounds are tiny programs of one family, see below)
        let mazes = ctx.tier.pick(250, 4000);
        for k in 0..per_shard + mazes {
            let mut rng = Rng::derive(ctx.seed, 12_000 + shard as u64, k as u64);
            let shape = rng.below(10);
            let (prof, inject) = match shape {
                0 => (Profile::conforming(), Some(Inject::JumpToFunction)),
                1 => (Profile::conforming(), Some(Inject::FallThrough)),
                2 | 3 => (Profile::conforming(), None),
                4 | 5 => (Profile::wild_static(), None),
                _ => (Profile::wild(), None),
            };
            let mut c = make_case(&mut rng, &prof, inject, Some(&Style::plain()));
            if k % 4 == 1 {
                // CSR-heavy trap handlers and shared tails instead of a generated program
                let s = match rng.below(10) {
                    0..=4 => crate::shapes::trap_handler_family(&mut rng),
                    5 | 6 => crate::shapes::shared_tail_family(&mut rng),
                    7 => crate::shapes::slot_loop_family(&mut rng),
                    _ => crate::shapes::exit_ecall_family(&mut rng),
                };
                c.g.prog = s.prog;
                c.g.funcs.clear();
                c.printed = crate::print::print(&c.g.prog, &Style::plain(), &mut Rng::new(1));
            }
            if k % 4 == 3 {
                // valid programs with odd semantics (retargeted jumps, stack-pointer games, reserved names)
                c.g.prog = crate::hostile::semantic_mutant(&mut rng);
                c.g.funcs.clear();
                c.printed = crate::print::print(&c.g.prog, &Style::plain(), &mut Rng::new(1));
            }
            let maze = k >= per_shard;
            if maze {
                let sh = if k % 2 == 0 { crate::shapes::ecall_maze_family(&mut rng) } else { crate::shapes::linking_jump_cycle_family(&mut rng) };
                c.g.prog = sh.prog;
                c.g.funcs.clear();
                c.printed = crate::print::print(&c.g.prog, &Style::plain(), &mut Rng::new(1));
            }
            let special = k % 4 == 1 || maze;
            let mutant = k % 4 == 3 && !maze;
            acc.evaluations += 1;
            let shape_name = if maze { if k % 2 == 0 { "maze-of-ecalls" } else { "linking-jump-cycle" } } else if special { "trap-handler-or-shared-tails" } else if mutant { "semantic-mutant" } else { match shape {
                0 => "jump-into-function",
                1 => "fall-through-into-function",
                2 | 3 => "conforming",
                4 | 5 => "wild-branches-into-functions",
                _ => "wild",
            } };
            let mut text = c.printed.text.clone();
            // ---- a family of its own: one epilogue file (restore + ret) included at the end of every
            // arm of a function, so that several returns stand at one and the same position of one file
            let mut files: Vec<(String, String)> = Vec::new();
            let include_family = k % 8 == 6 && !maze;
            if include_family {
                let arms = 2 + rng.below(2);
                let mut m = String::from("# c12\nmain:\n");
                m.push_str(&format!("    li a0, {}\n    jal pick\n    mv a0, a0\n    li a7, 10\n    ecall\npick:\n    addi sp, sp, -16\n    sw s0, 0(sp)\n    mv s0, a0\n", rng.range(0, 3)));
                for a in 0..arms {
                    if a + 1 < arms {
                        m.push_str(&format!("    li t0, {a}\n    bne s0, t0, arm_{}\n", a + 1));
                    }
                    m.push_str(&format!("    addi a0, s0, {}\n", rng.range(1, 40)));
                    if rng.chance(0.3) {
                        m.push_str("    li s0, 7\n    mv a0, s0\n");
                    }
                    m.push_str(".include \"epi.s\"\n");
                    if a + 1 < arms {
                        m.push_str(&format!("arm_{}:\n", a + 1));
                    }
                }
                let epi = if rng.chance(0.5) { "    lw s0, 0(sp)\n    addi sp, sp, 16\n    ret\n" } else { "    addi sp, sp, 16\n    ret\n" };
                files = vec![(FILE.to_string(), m.clone()), ("epi.s".to_string(), epi.to_string())];
                text = format!("=== main.s\n{m}=== epi.s\n{epi}");
            }
            let shape_name = if include_family { "one-epilogue-file-included-in-every-arm" } else { shape_name };
            let replay = json!({"program": text});
            // ---- parse once
            let parsed = guarded(|| {
                if include_family {
                    let mut rd = MemReader::new(&files);
                    rd.reread = if k % 16 == 6 { rva::Reread::AllowFreshId } else { rva::Reread::AllowSameId };
                    rva::parse_only(rd, FILE)
                } else {
                    rva::parse_only(MemReader::single(FILE, &text), FILE)
                }
            });
            let Ok((reader, nodes, errs)) = parsed else {
                acc.count("parse_panicked", 1);
                continue;
            };
            if !errs.is_empty() {
                acc.count("parse_errors", 1);
                continue;
            }
            let n_nodes = nodes.len() as u64;
            // ---- standard pipeline, twice
            let build = |acc: &mut Acc| -> Option<(Cfg, (u64, u64, u64))> {
                rva::arm_sweep_limit();
                match guarded(|| Manager::gen_full_cfg(nodes.clone())) {
                    Ok(Ok(cfg)) => Some((cfg, (verif_hooks::read(Pass::AvailableValue), verif_hooks::read(Pass::Liveness), verif_hooks::read(Pass::DeadCode)))),
                    Ok(Err(_)) => {
                        acc.count("cfg_error", 1);
                        None
                    }
                    Err(p) if p.class() == "sweep-limit" => {
                        let pass = if p.msg.contains("Liveness") { "liveness" } else if p.msg.contains("AvailableValue") { "available-values" } else { "dead-code" };
                        acc.violation(
                            format!("C12|sweeps:{pass}|diverged|{shape_name}"),
                            format!("{pass} pass does not reach a fixed point ({}) on a {shape_name} program of {n_nodes} nodes", p.msg),
                            replay.clone(),
                        );
                        None
                    }
                    Err(p) => {
                        acc.count(&format!("analysis_panicked:{}", p.class()), 1);
                        None
                    }
                }
            };
            let Some((mut cfg, (sa, sl, sd))) = build(&mut acc) else { continue };
            acc.max("max_sweeps_available_values_total", sa);
            acc.max("max_sweeps_liveness", sl);
            acc.max("max_sweeps_dead_code", sd);
            acc.count("pipelines_measured", 1);
            if sa > 3 * (4 * n_nodes + 16) || sl > 4 * n_nodes + 16 || sd > n_nodes + 2 {
                acc.violation(
                    format!("C12|sweeps|over-bound|{shape_name}"),
                    format!("sweeps avail={sa} live={sl} dead={sd} on {n_nodes} nodes exceed the linear bound"),
                    replay.clone(),
                );
            }
            let gv = GraphView::of(&cfg);
            let s0 = gv.snapshot();
            let d0 = diag_keys(&cfg, &reader);
            // ---- reproducibility
            // (overlapping functions are the known finding of C11: which exit a rewritten return
            // belongs to is stale there; everything else, several returns included, must repeat)
            let multi_ret = !include_family && (shape < 2 || special || mutant);
            if !multi_ret {
                if let Some((cfg2, _)) = build(&mut acc) {
                    let s1 = GraphView::of(&cfg2).snapshot();
                    verif_hooks::dispose(&cfg2);
                    acc.count("reproducibility_compared", 1);
                    if s0 != s1 {
                        let d = first_diff(&s0, &s1);
                        acc.violation(
                            format!("C12|repro|{}|{shape_name}", d.split(':').next().unwrap_or("")),
                            format!("analysing the same parsed program twice gives different facts: {d}"),
                            replay.clone(),
                        );
                    }
                }
            } else {
                acc.count("reproducibility_skipped_multi_return", 1);
            }
            // ---- idempotence under extra pass runs
            let mut seqs: Vec<Vec<u8>> = vec![vec![0], vec![1], vec![2]];
            for _ in 0..2 {
                let len = 2 + rng.below(5);
                seqs.push((0..len).map(|_| rng.below(3) as u8).collect());
            }
            let mut broke = false;
            for seq in &seqs {
                if broke {
                    break;
                }
                for p in seq {
                    rva::arm_sweep_limit();
                    let r = guarded(|| match p {
                        0 => AvailableValuePass::run(&mut cfg).is_ok(),
                        1 => EcallTerminationPass::run(&mut cfg).is_ok(),
                        _ => LivenessPass::run(&mut cfg).is_ok(),
                    });
                    let name = ["available-values", "ecall-termination", "liveness"][*p as usize];
                    acc.count("extra_pass_runs", 1);
                    match r {
                        Ok(true) => {}
                        Ok(false) => {
                            acc.count("extra_pass_failed", 1);
                            broke = true;
                            break;
                        }
                        Err(pi) => {
                            acc.violation(
                                format!("C12|idempotence:{name}|{}|{shape_name}", pi.class()),
                                format!("re-running {name} on the finished graph panics / diverges: {}", pi.msg),
                                replay.clone(),
                            );
                            broke = true;
                            break;
                        }
                    }
                    let s1 = GraphView::of(&cfg).snapshot();
                    if s1 != s0 {
                        let d = first_diff(&s0, &s1);
                        acc.violation(
                            format!("C12|idempotence:{name}|{}|{shape_name}", d.split(':').next().unwrap_or("")),
                            format!("re-running {name} on the finished graph changes it: {d}"),
                            replay.clone(),
                        );
                        broke = true;
                        break;
                    }
                }
                if !broke {
                    let d1 = diag_keys(&cfg, &reader);
                    if d1 != d0 {
                        acc.violation(
                            format!("C12|idempotence|diag|{shape_name}"),
                            "diagnostics differ after extra pass runs".to_string(),
                            replay.clone(),
                        );
                        broke = true;
                    }
                }
            }
            verif_hooks::dispose(&cfg);
            acc.note("shapes", shape_name);
            acc.nontrivial.insert(hash64(&text));
            if k == 0 && shard == 0 {
                acc.sample(json!({"shape": shape_name, "nodes": n_nodes, "sweeps": {"available_values_total": sa, "liveness": sl, "dead_code": sd}, "extra_pass_sequences": seqs}));
            }
        }
        acc
    });
    rep.acc.merge(acc);
    rep.require("pipelines_measured", 100);
    rep.require("extra_pass_runs", 1000);
    rep.finish()
}
