//! C02 - liveness covers every real use and is the least solution of its equations.

use super::c01::workload;
use super::common::*;
use super::dynamic::Which;
use crate::gen::Profile;
use crate::graph::GraphView;
use crate::print::Style;
use crate::report::{run_sharded, Acc, Ctx, Report};
use crate::rng::Rng;
use serde_json::json;

const CALLER_SAVED: u32 = 0xF003_FCE0;
const ARG_SET: u32 = 0x0003_FC00;

/// Least solution of the documented equations over the observed graph, using the analyzer's
/// own per-node gen/kill sets and ecall table as constants.
pub fn reference_liveness(gv: &GraphView) -> (Vec<u32>, Vec<u32>) {
    let n = gv.nodes.len();
    let mut live_in = vec![0u32; n];
    let mut live_out = vec![0u32; n];
    // which function does node n "call" (call, or plain jump/branch to a function label)
    let callee: Vec<Option<usize>> = gv
        .nodes
        .iter()
        .map(|nd| {
            if let Some(l) = &nd.calls_to {
                gv.func_by_label.get(l).copied()
            } else if let Some(l) = &nd.jump_label {
                gv.func_by_label.get(l).copied()
            } else {
                None
            }
        })
        .collect();
    let mut changed = true;
    let mut guard = 0;
    while changed && guard < 100_000 {
        guard += 1;
        changed = false;
        for i in (0..n).rev() {
            let nd = &gv.nodes[i];
            let out = nd.nexts.iter().fold(0u32, |a, s| a | live_in[*s]);
            let mut inn = live_in[i]; // contributions from call sites accumulate here
            if let Some(f) = callee[i] {
                let fx = gv.funcs[f].exit;
                let add = live_in[fx] | out;
                if add != live_in[fx] {
                    live_in[fx] = add;
                    changed = true;
                }
                inn |= (live_out[gv.funcs[f].entry] & ARG_SET) | (out & !nd.kill) | nd.gen;
            } else if nd.is_ecall {
                let args = nd.ecall_sig.map(|(a, _)| a).unwrap_or(0);
                inn |= (out & !CALLER_SAVED) | (1 << 17) | args;
            } else if nd.is_return {
                inn |= nd.gen;
            } else {
                inn |= nd.gen | (out & !nd.kill);
            }
            if out != live_out[i] {
                live_out[i] = out;
                changed = true;
            }
            if inn != live_in[i] {
                live_in[i] = inn;
                changed = true;
            }
        }
    }
    (live_in, live_out)
}

fn regs(m: u32) -> String {
    (0..32).filter(|r| m & (1 << r) != 0).map(|r| crate::ast::ABI[r]).collect::<Vec<_>>().join(",")
}

fn static_part(ctx: &Ctx, per_shard: usize) -> Acc {
    run_sharded(ctx, |shard| {
        let mut acc = Acc::new();
        for k in 0..per_shard {
            let mut rng = Rng::derive(ctx.seed, 2_500 + shard as u64, k as u64);
            let prof = if rng.chance(0.7) { Profile::wild_static() } else { Profile::conforming() };
            let mut c = make_case(&mut rng, &prof, None, Some(&Style::plain()));
            if k % 5 == 4 {
                let s = if rng.chance(0.7) { crate::shapes::trap_handler_family(&mut rng) } else { crate::shapes::shared_tail_family(&mut rng) };
                acc.note("shapes", s.name);
                c.g.prog = s.prog;
                c.g.base = c.g.prog.clone();
                c.g.funcs.clear();
                c.printed = crate::print::print(&c.g.prog, &Style::plain(), &mut Rng::new(1));
            }
            acc.evaluations += 1;
            let Ok(a) = analyze(&c.printed.text) else {
                acc.count("analysis_panicked", 1);
                continue;
            };
            let Ok(cfg) = &a.cfg else { continue };
            let gv = GraphView::of(cfg);
            // ---- (c) the per-instruction constants themselves: what an instruction reads (gen) and
            // overwrites (kill), from the harness's own decoding of it
            for (nd, rc) in gv.nodes.iter().zip(cfg.nodes().iter()) {
                let pn = rc.node();
                if nd.render.trim() == "uret" {
                    // the interrupted code goes on using every register
                    acc.count("gen_kill_nodes_checked", 1);
                    if nd.gen | 1 != 0xffff_ffff {
                        acc.violation(
                            "C02|gen|uret".to_string(),
                            format!("`uret` (line {}) is said to read only [{}]: the interrupted code reads every register", nd.line + 1, regs(nd.gen)),
                            json!({"program": c.printed.text}),
                        );
                    }
                    continue;
                }
                if nd.is_return || nd.is_ecall || nd.calls_to.is_some() || nd.is_func_entry || nd.is_program_entry {
                    continue; // their sets are the convention's, judged by parts (a) and (b)
                }
                let Some(ins) = crate::decode::node_to_ins(&pn) else { continue };
                acc.count("gen_kill_nodes_checked", 1);
                let want_gen: u32 = ins.reads().iter().filter(|r| **r != 0).fold(0, |m, r| m | 1 << r);
                let want_kill: u32 = ins.writes().filter(|r| *r != 0).map_or(0, |r| 1 << r);
                if nd.gen & !1 != want_gen {
                    acc.violation(
                        format!("C02|gen|{}", nd.kind),
                        format!("`{}` (line {}) reads [{}], the analysis uses [{}]", nd.render, nd.line + 1, regs(want_gen), regs(nd.gen & !1)),
                        json!({"program": c.printed.text}),
                    );
                }
                if nd.kill & !1 != want_kill {
                    acc.violation(
                        format!("C02|kill|{}", nd.kind),
                        format!("`{}` (line {}) overwrites [{}], the analysis uses [{}]", nd.render, nd.line + 1, regs(want_kill), regs(nd.kill & !1)),
                        json!({"program": c.printed.text}),
                    );
                }
            }
            let (ri, ro) = reference_liveness(&gv);
            acc.count("lfp_programs", 1);
            acc.count("lfp_nodes_compared", gv.nodes.len() as u64);
            for nd in &gv.nodes {
                for (what, tool, refv) in [("live_in", nd.live_in, ri[nd.idx]), ("live_out", nd.live_out, ro[nd.idx])] {
                    if tool != refv {
                        let dir = if tool & !refv != 0 { "too-large" } else { "too-small" };
                        acc.violation(
                            format!("C02|lfp|{dir}|{}|{what}", nd.kind),
                            format!(
                                "{what} of `{}` (line {}) is [{}], the least solution of the documented equations is [{}]",
                                nd.render, nd.line + 1, regs(tool), regs(refv)
                            ),
                            json!({"program": c.printed.text}),
                        );
                    }
                }
            }
        }
        acc
    })
}

pub fn run(ctx: &Ctx) -> i32 {
    let mut rep = Report::new(
        ctx,
        "(a) dynamic: the same program executions as C01; for every register read, every executed node between the dynamic \
         definition (instruction, activation entry, clobbering return of a call/ecall) and the read must list the register as live; \
         argument/return registers inferred for the functions must contain what activations actually read; `Unused value` must not sit on a value an execution read. \
         (b) static: live_in/live_out of every node compared with the least solution of the documented equations computed by an independent worklist solver \
         (generated programs, trap handlers, shared tails); (c) the per-instruction constants of those equations - the registers an instruction reads and overwrites - compared with the harness's own decoding of every ordinary instruction, and `uret` must read every register. \
         distinct_nontrivial = distinct programs with >= 10 executed instructions and >= 1 checked chain",
    );
    rep.assume("calls are transparent for argument registers and clobber every other caller-saved register not written by the callee; ecalls read a7 plus the RARS arguments and clobber all caller-saved registers");
    rep.assume("part (b) takes the analyzer's per-node gen/kill sets and ecall table as the documented constants; part (c) checks those of ordinary instructions and of uret independently");
    let per_shard = ctx.tier.pick(120, 2500);
    let runs = ctx.tier.pick(4, 8);
    let acc = workload(ctx, Which::C02, 2_000, per_shard, runs);
    rep.acc.merge(acc);
    let acc = static_part(ctx, ctx.tier.pick(120, 2500));
    rep.acc.merge(acc);
    rep.require("chains_checked", 10_000);
    rep.require("lfp_nodes_compared", 10_000);
    rep.finish()
}
