//! C15 - `.include` behaves as textual inclusion with per-file locations.

use super::common::*;
use crate::cli::{self, Scratch};
use crate::gen::{self, Profile, ALL_INJECT};
use crate::print::{print, Style};
use crate::report::{run_sharded, Acc, Ctx, Report};
use crate::rng::{hash64, Rng};
use crate::rva::{self, guarded, Diag, Fault, MemReader, Reread};
use serde_json::json;
use std::collections::BTreeMap;

/// A program cut into an include tree.
pub struct Tree {
    pub files: Vec<(String, String)>,
    /// for every line of the pasted (single-file) text: (file, line inside that file)
    pub origin: Vec<(String, usize)>,
}

/// Cut `lines` (each tagged with its index in the pasted text) into `name` plus included files.
fn cut(
    name: &str,
    lines: &[(usize, String)],
    depth: usize,
    rng: &mut Rng,
    files: &mut Vec<(String, String)>,
    origin: &mut BTreeMap<usize, (String, usize)>,
    counter: &mut usize,
) {
    let mut out: Vec<String> = Vec::new();
    let n = lines.len();
    let mut i = 0;
    let n_inc = if depth == 0 || n < 6 { 0 } else { 1 + rng.below(3) };
    // choose include ranges
    let mut ranges: Vec<(usize, usize)> = Vec::new();
    for _ in 0..n_inc {
        let a = 1 + rng.below(n - 2);
        let b = (a + 1 + rng.below(n / 2 + 1)).min(n);
        if ranges.iter().all(|(x, y)| b <= *x || a >= *y) {
            ranges.push((a, b));
        }
    }
    ranges.sort_unstable();
    let mut ri = 0;
    let up = "../".repeat(name.matches('/').count());
    while i < n {
        if lines[i].1 == SNIP_MARK && !(ri < ranges.len() && ranges[ri].0 == i) {
            // an occurrence of the shared snippet: its lines live in SNIP_FILE
            out.push(format!(".include \"{up}{SNIP_FILE}\""));
            i += 1;
            continue;
        }
        if ri < ranges.len() && ranges[ri].0 == i {
            let (a, b) = ranges[ri];
            ri += 1;
            *counter += 1;
            let sub = if rng.chance(0.3) { format!("sub/inc{}.s", *counter) } else { format!("inc{}.s", *counter) };
            // path as written in the directive is relative to the including file
            let dir_of = |p: &str| p.rsplit_once('/').map(|x| x.0.to_string()).unwrap_or_default();
            let here = dir_of(name);
            let full = if here.is_empty() { sub.clone() } else { format!("{here}/{sub}") };
            out.push(format!(".include \"{sub}\""));
            cut(&full, &lines[a..b], depth - 1, rng, files, origin, counter);
            i = b;
        } else {
            origin.insert(lines[i].0, (name.to_string(), out.len()));
            out.push(lines[i].1.clone());
            i += 1;
        }
    }
    files.push((name.to_string(), out.join("\n") + "\n"));
}

const SNIP_MARK: &str = "\u{1}snippet";
pub const SNIP_FILE: &str = "snip.s";

/// Label-free snippets that are legal to paste any number of times (some of them draw diagnostics).
const SNIPPETS: [&str; 5] = [
    "    nop\n",
    "    # shared comment\n    addi t6, zero, 5\n    add zero, t6, t6\n",
    "    li t5, 77\n",
    "    addi t6, t6, 1\n    nop\n",
    "    add t0, t1\n",
];

/// Insert 2-3 copies of one snippet between instruction lines of `text`; returns the new text,
/// the snippet and the (first line, length) of each copy in the new text.
pub fn add_shared_snippet(text: &str, rng: &mut Rng) -> Option<(String, String, Vec<(usize, usize)>)> {
    let snippet = SNIPPETS[rng.below(SNIPPETS.len())];
    let ls: Vec<&str> = text.lines().collect();
    let is_ins = |l: &str| l.starts_with("    ") && !l.trim_start().starts_with('.') && !l.trim_start().starts_with('#');
    let slots: Vec<usize> = (1..ls.len()).filter(|&i| is_ins(ls[i]) && is_ins(ls[i - 1])).collect();
    if slots.len() < 3 {
        return None;
    }
    let mut at: Vec<usize> = (0..2 + rng.below(2)).map(|_| slots[rng.below(slots.len())]).collect();
    at.sort_unstable();
    at.dedup();
    let sn: Vec<&str> = snippet.lines().collect();
    let mut out: Vec<&str> = Vec::new();
    let mut occ = Vec::new();
    for (i, l) in ls.iter().enumerate() {
        if at.contains(&i) {
            occ.push((out.len(), sn.len()));
            out.extend(sn.iter());
        }
        out.push(l);
    }
    Some((out.join("\n") + "\n", snippet.to_string(), occ))
}

pub fn make_tree(text: &str, rng: &mut Rng, depth: usize) -> Tree {
    make_tree_with(text, rng, depth, None)
}

/// `shared`: the snippet text and its occurrences (first line, length) in `text`; every occurrence
/// becomes an `.include` of the one file SNIP_FILE.
pub fn make_tree_with(text: &str, rng: &mut Rng, depth: usize, shared: Option<(&str, &[(usize, usize)])>) -> Tree {
    let mut lines: Vec<(usize, String)> = Vec::new();
    let mut origin = BTreeMap::new();
    let occ: &[(usize, usize)] = shared.map(|s| s.1).unwrap_or(&[]);
    let mut skip = 0;
    for (i, l) in text.lines().enumerate() {
        if let Some((_, len)) = occ.iter().find(|(a, _)| *a == i) {
            lines.push((i, SNIP_MARK.to_string()));
            skip = *len;
        }
        if skip > 0 {
            let first = occ.iter().filter(|(a, _)| *a <= i).map(|(a, _)| *a).max().unwrap_or(i);
            origin.insert(i, (SNIP_FILE.to_string(), i - first));
            skip -= 1;
            continue;
        }
        lines.push((i, l.to_string()));
    }
    let n_lines = text.lines().count();
    let mut files = Vec::new();
    let mut counter = 0;
    cut(FILE, &lines, depth, rng, &mut files, &mut origin, &mut counter);
    files.reverse(); // base first
    if let Some((sn, _)) = shared {
        files.push((SNIP_FILE.to_string(), sn.to_string()));
    }
    let lines: Vec<()> = vec![(); n_lines];
    let origin: Vec<(String, usize)> = (0..lines.len()).map(|i| origin.get(&i).cloned().unwrap_or((String::from("?"), 0))).collect();
    Tree { files, origin }
}

/// (code-or-title, file, line in file, c0, c1, title)
type Key = (String, String, usize, usize, usize, String);

fn keys(diags: &[Diag], map_line: &dyn Fn(&str, usize) -> (String, usize)) -> BTreeMap<Key, usize> {
    let mut m = BTreeMap::new();
    for d in diags {
        let (f, l) = map_line(&d.file, d.span.start.line);
        *m.entry((d.code.clone(), f, l, d.span.start.col, d.span.end.col, d.title.clone())).or_insert(0) += 1;
    }
    m
}

#[allow(clippy::too_many_lines)]
pub fn run(ctx: &Ctx) -> i32 {
    let mut rep = Report::new(
        ctx,
        "programs (conforming, with planted violations, wild, with malformed lines) are cut at line boundaries into include trees (depth 1-3, several includes per file, sub-directories) and analysed through the in-memory \
         FileReader; the pasted single file is analysed too and its diagnostics mapped back to (file, file-relative line): the multisets of (kind, file, line, columns, title) must be equal. The CLI must show \
         exactly the base-file items plus the right count of the others, or all with --all-files. Faults of the reader (not found, IO error, internal error, file already read, self- and cyclic include; in-memory with \
         three re-read policies and on disk) must give exactly one error on the directive's line, leave all other diagnostics as with the directive blanked, and terminate. distinct_nontrivial = distinct include trees with >= 2 files compared",
    );
    rep.assume("a label or statement may not be cut in the middle of a line; cuts are at line boundaries only");
    let per_shard = ctx.tier.pick(30, 500);
    let acc = run_sharded(ctx, |shard| {
        let mut acc = Acc::new();
        for k in 0..per_shard {
            let mut rng = Rng::derive(ctx.seed, 15_000 + shard as u64, k as u64);
            let inj = ALL_INJECT[rng.below(ALL_INJECT.len())];
            let (prof, inject) = match rng.below(4) {
                0 => (Profile::conforming(), None),
                1 | 2 => (Profile::conforming(), Some(inj)),
                _ => (Profile::wild(), None),
            };
            let mut g = gen::generate(&mut rng, &prof, inject);
            if rng.chance(0.15) {
                // two or three different labels that nothing defines: the error names one place, and
                // that place must not depend on how the program is spread over files
                let mut n = 0;
                for l in g.prog.lines.iter_mut() {
                    if let crate::ast::Line::Ins(crate::ast::Ins::Branch { label, .. }) = l {
                        if n < 3 && rng.chance(0.3) {
                            *label = format!("undefined_{n}");
                            n += 1;
                        }
                    }
                }
                if n > 0 {
                    acc.count("programs_with_undefined_labels", 1);
                }
            }
            let mut text = print(&g.prog, &Style::plain(), &mut Rng::new(1)).text;
            if rng.chance(0.2) {
                // a malformed line somewhere
                let mut ls: Vec<String> = text.lines().map(str::to_string).collect();
                let i = rng.below(ls.len());
                if ls[i].starts_with("    ") {
                    ls[i] = "    add t0, t1".to_string();
                }
                text = ls.join("\n") + "\n";
            }
            let depth = 1 + rng.below(3);
            let shared = if rng.chance(0.4) { add_shared_snippet(&text, &mut rng) } else { None };
            let tree = match &shared {
                Some((t, sn, occ)) => {
                    text = t.clone();
                    acc.count("trees_with_a_file_included_several_times", 1);
                    make_tree_with(&text, &mut rng, depth, Some((sn, occ)))
                }
                None => make_tree(&text, &mut rng, depth),
            };
            acc.evaluations += 1;
            let replay = json!({"files": tree.files});
            // ---------- (equivalence)
            let pasted = guarded(|| rva::analyze_with(MemReader::single(FILE, &text), FILE));
            // a file that is included several times must be delivered again: like the CLI's reader
            // (fresh id per delivery) or like an editor's (one id per file)
            let policy = if shared.is_none() { Reread::Refuse } else if rng.chance(0.5) { Reread::AllowFreshId } else { Reread::AllowSameId };
            let split = guarded(|| {
                let mut rd = MemReader::new(&tree.files);
                rd.reread = policy;
                rva::analyze_with(rd, FILE)
            });
            let (Ok(pa), Ok(sp)) = (pasted, split) else {
                acc.count("analysis_panicked", 1);
                continue;
            };
            let origin = &tree.origin;
            let kp = keys(&pa.all_diags(), &|_f, l| origin.get(l).cloned().unwrap_or((String::from("?"), l)));
            let ks = keys(&sp.all_diags(), &|f, l| (f.to_string(), l));
            if tree.files.len() > 1 {
                acc.nontrivial.insert(hash64(&format!("{:?}", tree.files)));
                acc.count("trees_compared", 1);
                acc.max("max_files_in_tree", tree.files.len() as u64);
            }
            if kp != ks {
                let d = kp.iter().find(|(k, n)| ks.get(*k) != Some(*n)).map(|(k, _)| format!("{k:?} only in the pasted file")).or_else(|| ks.iter().find(|(k, n)| kp.get(*k) != Some(*n)).map(|(k, _)| format!("{k:?} only through the includes"))).unwrap_or_default();
                let field = if kp.len() != ks.len() { "count" } else { "location" };
                acc.violation(
                    format!("C15|equiv|mem|{field}"),
                    format!("split into {} files the program gets different diagnostics than pasted: {d}", tree.files.len()),
                    replay.clone(),
                );
            } else {
                acc.count("equivalent_trees", 1);
            }
            // ---------- (selection) through the CLI
            if k % 3 == 0 && tree.files.len() > 1 && !ctx.rva_checked.as_os_str().is_empty() {
                let sc = Scratch::new(&ctx.root, "c15");
                for (n, t) in &tree.files {
                    sc.write(n, t);
                }
                let dir = sc.dir.to_string_lossy().to_string();
                let all = sp.all_diags();
                let base_n = all.iter().filter(|d| d.file == FILE).count();
                let other_n = all.len() - base_n;
                for all_files in [false, true] {
                    let mut args = vec!["lint", "--compact", "--no-color"];
                    if all_files {
                        args.push("--all-files");
                    }
                    args.push(FILE);
                    let run = cli::rva(&ctx.rva_checked, &args, &sc.dir);
                    acc.count("cli_runs", 1);
                    if run.timed_out || run.code != Some(0) {
                        acc.violation("C15|selection|cli|abnormal-exit".to_string(), format!("rva ends abnormally: {:?} {}", run.code, run.stderr.lines().next().unwrap_or("")), replay.clone());
                        continue;
                    }
                    let Ok((list, cnt)) = cli::parse_compact(&run.stdout) else {
                        acc.violation("C15|selection|cli|malformed".to_string(), "compact output cannot be parsed".to_string(), replay.clone());
                        continue;
                    };
                    if all_files {
                        let mut kc: BTreeMap<(String, String, usize, usize, usize), usize> = BTreeMap::new();
                        for d in &list {
                            let f = d.file.strip_prefix(&dir).map(|s| s.trim_start_matches('/').to_string()).unwrap_or_else(|| d.file.clone());
                            *kc.entry((d.title.clone(), f, d.line, d.c0, d.c1)).or_insert(0) += 1;
                        }
                        let mut kl: BTreeMap<(String, String, usize, usize, usize), usize> = BTreeMap::new();
                        for ((_, f, l, c0, c1, title), n) in &kp {
                            *kl.entry((title.clone(), f.clone(), *l, *c0, *c1)).or_insert(0) += n;
                        }
                        if kc != kl {
                            let d = kl.iter().find(|(k, n)| kc.get(*k) != Some(*n)).map(|(k, _)| format!("{k:?} only in the pasted file")).or_else(|| kc.iter().find(|(k, n)| kl.get(*k) != Some(*n)).map(|(k, _)| format!("{k:?} only from the files on disk"))).unwrap_or_default();
                            acc.violation(
                                format!("C15|equiv|disk|{}", if kc.values().sum::<usize>() != kl.values().sum::<usize>() { "count" } else { "location" }),
                                format!("`rva lint --all-files` on the tree on disk ({} files) differs from the pasted file: {d}", tree.files.len()),
                                replay.clone(),
                            );
                        } else {
                            acc.count("disk_trees_equivalent", 1);
                        }
                    }
                    let shown_base = list.iter().filter(|d| d.file.strip_prefix(&dir).map(|s| s.trim_start_matches('/')) == Some(FILE)).count();
                    let shown_other = list.len() - shown_base;
                    let ok = if all_files {
                        shown_base == base_n && shown_other == other_n && cnt.is_none()
                    } else {
                        shown_base == base_n && shown_other == 0 && cnt == if other_n == 0 { None } else { Some(other_n) }
                    };
                    if !ok {
                        acc.violation(
                            format!("C15|selection|cli|{}", if all_files { "all-files" } else { "base-file" }),
                            format!("library: {base_n} in the base file + {other_n} elsewhere; CLI shows {shown_base} + {shown_other}, announces {cnt:?}"),
                            replay.clone(),
                        );
                    } else {
                        acc.count("selections_correct", 1);
                    }
                }
            }
            // ---------- (faults) in memory
            let victims: Vec<&String> = tree.files.iter().skip(1).map(|f| &f.0).filter(|n| *n != SNIP_FILE).collect();
            if !victims.is_empty() {
                let victim = victims[rng.below(victims.len())].clone();
                // the directive that includes the victim
                let mut dir_site: Option<(String, usize)> = None;
                for (n, t) in &tree.files {
                    for (li, l) in t.lines().enumerate() {
                        if let Some(p) = l.trim().strip_prefix(".include \"") {
                            let p = p.trim_end_matches('"');
                            if MemReader::resolve(Some(n), p) == victim {
                                dir_site = Some((n.clone(), li));
                            }
                        }
                    }
                }
                let Some((dfile, dline)) = dir_site else { continue };
                for fault in [Fault::NotFound, Fault::Io, Fault::Internal] {
                    let mut rd = MemReader::new(&tree.files);
                    rd.faults.insert(victim.clone(), fault.clone());
                    let fname = format!("{fault:?}");
                    acc.count("faults_injected", 1);
                    let Ok(fa) = guarded(|| rva::analyze_with(rd, FILE)) else {
                        acc.violation(format!("C15|fault:{fname}|mem|panic"), "analysis panics when the reader fails".to_string(), replay.clone());
                        continue;
                    };
                    // reference: the same tree with the directive line blanked (and the victim unreachable)
                    let blanked: Vec<(String, String)> = tree
                        .files
                        .iter()
                        .map(|(n, t)| {
                            if *n == dfile {
                                // (blanked with spaces: every other token keeps its offset in the file)
                                (n.clone(), t.lines().enumerate().map(|(i, l)| if i == dline { " ".repeat(l.chars().count()) } else { l.to_string() }).collect::<Vec<_>>().join("\n") + "\n")
                            } else {
                                (n.clone(), t.clone())
                            }
                        })
                        .collect();
                    let Ok(ba) = guarded(|| rva::analyze_with(MemReader::new(&blanked), FILE)) else { continue };
                    let on_directive: Vec<&Diag> = fa.parse_errors.iter().filter(|d| d.file == dfile && d.span.start.line == dline).collect();
                    if on_directive.len() != 1 || on_directive[0].sev != crate::rva::Sev::Error {
                        acc.violation(
                            format!("C15|fault:{fname}|mem|directive-error"),
                            format!("a reader fault ({fname}) on `{victim}` yields {} error(s) on the directive line {}:{}", on_directive.len(), dfile, dline + 1),
                            replay.clone(),
                        );
                        continue;
                    }
                    let rest: Vec<Diag> = fa.all_diags().into_iter().filter(|d| !(d.file == dfile && d.span.start.line == dline && d.code.starts_with("parse:"))).collect();
                    let id = |f: &str, l: usize| (f.to_string(), l);
                    if keys(&rest, &id) != keys(&ba.all_diags(), &id) {
                        acc.violation(
                            format!("C15|fault:{fname}|mem|rest-differs"),
                            "with a failing include the rest of the program is analysed differently than with the directive removed".to_string(),
                            replay.clone(),
                        );
                    } else {
                        acc.count("faults_contained", 1);
                    }
                }
            }
        }
        // ---------- include cycles, each re-read policy, in memory
        for (ci, (name, files)) in [
            ("self-include", vec![(FILE.to_string(), "# a\nmain:\n    li a7, 10\n.include \"main.s\"\n    ecall\n".to_string())]),
            ("two-cycle", vec![(FILE.to_string(), "# a\nmain:\n    li a7, 10\n.include \"b.s\"\n    ecall\n".to_string()), ("b.s".to_string(), "# b\n.include \"main.s\"\n    nop\n".to_string())]),
            ("three-cycle", vec![(FILE.to_string(), "main:\n.include \"b.s\"\n    li a7, 10\n    ecall\n".to_string()), ("b.s".to_string(), ".include \"c.s\"\n".to_string()), ("c.s".to_string(), "    nop\n.include \"main.s\"\n".to_string())]),
            ("same-file-twice", vec![(FILE.to_string(), "main:\n.include \"b.s\"\n.include \"b.s\"\n    li a7, 10\n    ecall\n".to_string()), ("b.s".to_string(), "    addi a0, a0, 1\n".to_string())]),
            ("cycle-through-subdir", vec![(FILE.to_string(), "main:\n.include \"sub/../main.s\"\n    li a7, 10\n    ecall\n".to_string())]),
        ]
        .into_iter()
        .enumerate()
        {
            if ci % ctx.jobs != shard % ctx.jobs {
                continue;
            }
            for policy in [Reread::Refuse, Reread::AllowSameId, Reread::AllowFreshId] {
                acc.evaluations += 1;
                acc.count("cycle_cases", 1);
                let mut rd = MemReader::new(&files);
                rd.reread = policy;
                rd.import_cap = 2000;
                let r = guarded(|| rva::analyze_with(rd, FILE));
                let pname = format!("{policy:?}");
                match r {
                    Err(p) => {
                        let what = if p.msg.contains("include loop") { "does-not-terminate" } else { "panic" };
                        acc.violation(
                            format!("C15|fault:{name}|mem:{pname}|{what}"),
                            format!("{name} with a reader that {} a second request: {}", match policy { Reread::Refuse => "refuses", Reread::AllowSameId => "answers (same id)", Reread::AllowFreshId => "answers (fresh id)" }, p.msg),
                            json!({"files": files}),
                        );
                    }
                    Ok(a) => {
                        if name != "same-file-twice" {
                            let errs = a.parse_errors.iter().filter(|d| d.sev == crate::rva::Sev::Error).count();
                            if errs == 0 {
                                acc.violation(format!("C15|fault:{name}|mem:{pname}|no-error"), format!("{name}: no error diagnostic on any directive"), json!({"files": files}));
                            }
                        }
                        acc.count("cycle_cases_terminated", 1);
                    }
                }
            }
        }
        acc
    });
    rep.acc.merge(acc);
    // ---------- on disk, through the CLI's own reader
    if !ctx.rva_checked.as_os_str().is_empty() {
        let mut acc = Acc::new();
        let cases: Vec<(&str, Vec<(&str, &str)>, Option<&str>)> = vec![
            ("self-include", vec![("main.s", "main:\n    li a7, 10\n.include \"main.s\"\n    ecall\n")], None),
            ("two-cycle", vec![("main.s", "main:\n    li a7, 10\n.include \"b.s\"\n    ecall\n"), ("b.s", ".include \"main.s\"\n    nop\n")], None),
            ("cycle-through-subdir", vec![("main.s", "main:\n.include \"sub/../main.s\"\n    li a7, 10\n    ecall\n"), ("sub/keep.s", "nop\n")], None),
            ("missing-file", vec![("main.s", "main:\n.include \"nothere.s\"\n    li a7, 10\n    ecall\n")], Some("main.s")),
            ("directory-instead-of-file", vec![("main.s", "main:\n.include \"sub\"\n    li a7, 10\n    ecall\n"), ("sub/keep.s", "nop\n")], Some("main.s")),
            ("same-file-twice", vec![("main.s", "main:\n.include \"b.s\"\n.include \"b.s\"\n    li a7, 10\n    ecall\n"), ("b.s", "    addi a0, a0, 1\n")], None),
        ];
        for (name, files, _) in &cases {
            let sc = Scratch::new(&ctx.root, "c15d");
            for (n, t) in files {
                sc.write(n, t);
            }
            for exe in [&ctx.rva_checked, &ctx.rva_release] {
                acc.evaluations += 1;
                acc.count("disk_cases", 1);
                // a small memory limit makes a runaway include loop fail fast
                let run = cli::run_limited(exe, &["lint", "--compact", "--no-color", "--all-files", "main.s"], &sc.dir, 1024 * 1024, std::time::Duration::from_secs(30));
                let fl: Vec<(String, String)> = files.iter().map(|(a, b)| ((*a).to_string(), (*b).to_string())).collect();
                if run.timed_out || run.code != Some(0) {
                    let what = if run.timed_out { "does-not-terminate" } else if run.stderr.contains("memory allocation") || run.signal.is_some() { "runs-out-of-memory" } else { "abnormal-exit" };
                    acc.violation(
                        format!("C15|fault:{name}|cli|{what}"),
                        format!("`rva lint` on {name}: code {:?} signal {:?} timeout {} stderr `{}`", run.code, run.signal, run.timed_out, run.stderr.lines().next().unwrap_or("").chars().take(100).collect::<String>()),
                        json!({"files": fl}),
                    );
                    continue;
                }
                let errors = run.stdout.lines().filter(|l| l.starts_with("Error: ")).count();
                if errors == 0 && *name != "same-file-twice" {
                    acc.violation(format!("C15|fault:{name}|cli|no-error"), format!("{name}: no error line in the output `{}`", run.stdout.lines().next().unwrap_or("")), json!({"files": fl}));
                } else {
                    acc.count("disk_cases_ok", 1);
                }
            }
        }
        rep.acc.merge(acc);
    }
    rep.require("trees_compared", 50);
    rep.require("faults_injected", 50);
    rep.require("cycle_cases", 10);
    rep.acc.sample(json!({"tree": "main.s includes inc1.s and sub/inc2.s; sub/inc2.s includes inc3.s (relative to sub/)"}));
    rep.finish()
}
