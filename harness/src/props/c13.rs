//! C13 - diagnostics do not depend on how the same program is written.

use crate::ast::{AluOp, Ins, Program, Reg, SP};
use super::common::*;
use crate::gen::{self, Profile, ALL_INJECT};
use crate::print::{print, Style};
use crate::report::{run_sharded, Acc, Ctx, Report};
use crate::rng::{hash64, Rng};
use serde_json::json;

/// Single-feature variants of the base style, each named after the rewrite it performs.
fn single_feature_styles() -> Vec<(&'static str, Style)> {
    let b = Style::base();
    vec![
        ("pseudo-instructions", Style { p_pseudo: 1.0, ..b.clone() }),
        ("numeric-register-names", Style { p_numeric: 1.0, ..b.clone() }),
        ("mixed-register-names", Style { p_numeric: 0.5, allow_fp: true, ..b.clone() }),
        ("upper-case-mnemonics", Style { p_upper: 1.0, ..b.clone() }),
        ("hex-immediates", Style { p_hex: 1.0, ..b.clone() }),
        ("binary-immediates", Style { p_bin: 1.0, ..b.clone() }),
        ("char-immediates", Style { p_char: 1.0, ..b.clone() }),
        ("omitted-zero-offsets", Style { p_omit_zero: 1.0, ..b.clone() }),
        ("labels-in-front-of-instruction", Style { p_label_inline: 1.0, ..b.clone() }),
        ("trailing-comments", Style { p_trailing_comment: 0.7, ..b.clone() }),
        ("blank-and-comment-lines", Style { p_blank_line: 0.4, p_comment_line: 0.3, ..b.clone() }),
        ("no-commas", Style { sep: 2, ..b.clone() }),
        ("tight-commas", Style { sep: 1, ..b.clone() }),
        ("spaced-commas", Style { sep: 3, ..b.clone() }),
        ("doubled-commas", Style { sep: 4, ..b.clone() }),
        ("tab-separated", Style { sep: 5, indent: 1, ..b.clone() }),
        ("no-indentation", Style { indent: 2, ..b.clone() }),
        ("no-final-newline", Style { trailing_newline: false, ..b }),
    ]
}

/// One statement of the `li` family: a load of a 32-bit constant (printed either as `li` or as its
/// expansion) or any other line.
enum Stmt {
    Li(Reg, i32),
    I(Ins),
    L(&'static str),
}

/// Programs in which big constants matter for the diagnostics: frames of 4 KiB and more allocated and
/// freed through a register, an ecall number computed from two big constants, a stack slot addressed
/// through a computed offset.
fn li_family(rng: &mut Rng) -> Vec<Stmt> {
    let big = *rng.pick(&[4096, 8192, 4096 + 16, 0x12340, 2048, 6000, 0x7fff_f000u32 as i32, -4096, 0x1000_0000]);
    let frame = *rng.pick(&[4096, 8192, 4112, 2048, 12288]);
    let free_matches = rng.chance(0.8);
    let mut v = vec![Stmt::L("main"), Stmt::I(Ins::li(10, 3)), Stmt::I(Ins::call("work"))];
    // an ecall number computed from two big constants (10 = exit, or something else)
    let delta = if rng.chance(0.7) { 10 } else { 11 };
    v.push(Stmt::Li(5, big.wrapping_add(delta)));
    v.push(Stmt::Li(6, big));
    v.push(Stmt::I(Ins::Alu { op: AluOp::Sub, rd: 17, rs1: 5, rs2: 6 }));
    v.push(Stmt::I(Ins::Ecall));
    v.push(Stmt::I(Ins::li(17, 10)));
    v.push(Stmt::I(Ins::Ecall));
    v.push(Stmt::L("work"));
    v.push(Stmt::Li(5, frame));
    v.push(Stmt::I(Ins::Alu { op: AluOp::Sub, rd: SP, rs1: SP, rs2: 5 }));
    v.push(Stmt::I(Ins::sw(8, 0, SP)));
    v.push(Stmt::I(Ins::addi(8, 10, 1)));
    v.push(Stmt::I(Ins::mv(10, 8)));
    v.push(Stmt::I(Ins::lw(8, 0, SP)));
    if rng.chance(0.5) {
        v.push(Stmt::Li(6, if free_matches { frame } else { frame + 16 }));
        v.push(Stmt::I(Ins::Alu { op: AluOp::Add, rd: SP, rs1: SP, rs2: 6 }));
    } else {
        // freed in steps of at most 2032
        let mut left = if free_matches { frame } else { frame - 16 };
        while left > 0 {
            let step = left.min(2032);
            v.push(Stmt::I(Ins::addi(SP, SP, step)));
            left -= step;
        }
    }
    v.push(Stmt::I(Ins::ret()));
    v
}

/// Data lists that continue on the following lines (`.word 1, 2` / `3, 4`), rewritten by what the statement
/// lists as meaning-preserving: a comment behind the first line, a comment line or a blank line between
/// the lines, different indentation of the continuation. Only layouts of the *continued* list are compared
/// with each other (whether a list may continue at all is not C13's business).
fn data_list_case(rng: &mut Rng, acc: &mut Acc) {
    let dirs = [".word", ".half", ".byte"];
    let n_lists = 1 + rng.below(3);
    // each list: directive, label, first-line values, continuation lines
    let lists: Vec<(String, &str, Vec<i32>, Vec<Vec<i32>>)> = (0..n_lists)
        .map(|k| {
            let first: Vec<i32> = (0..1 + rng.below(3)).map(|_| rng.range(0, 99) as i32).collect();
            let cont: Vec<Vec<i32>> = (0..1 + rng.below(2)).map(|_| (0..1 + rng.below(3)).map(|_| rng.range(0, 99) as i32).collect()).collect();
            (format!("tbl_{k}"), dirs[rng.below(3)], first, cont)
        })
        .collect();
    let unused = rng.chance(0.5);
    let data_first = rng.chance(0.5);
    let code = {
        let mut c = vec!["main:".to_string(), "    la t0, tbl_0".into(), "    lw a0, 0(t0)".into(), "    li a7, 1".into(), "    ecall".into()];
        if unused {
            c.push("    li t3, 5".into());
        }
        c.push("    li a7, 10".into());
        c.push("    ecall".into());
        c
    };
    // style: 0 = plain, 1 = comment behind the directive line, 2 = comment line between, 3 = blank line between,
    // 4 = comment behind every line, 5 = continuation not indented
    let render = |style: u32| -> String {
        let mut out = vec!["# data lists".to_string()];
        let data = |out: &mut Vec<String>| {
            out.push(".data".into());
            for (label, dir, first, cont) in &lists {
                let f = first.iter().map(i32::to_string).collect::<Vec<_>>().join(", ");
                out.push(format!("{label}: {dir} {f}{}", if style == 1 || style == 4 { "  # first values" } else { "" }));
                for c in cont {
                    if style == 2 {
                        out.push("    # more values".into());
                    }
                    if style == 3 {
                        out.push(String::new());
                    }
                    let v = c.iter().map(i32::to_string).collect::<Vec<_>>().join(", ");
                    out.push(format!("{}{v}{}", if style == 5 { "" } else { "        " }, if style == 4 { " # more" } else { "" }));
                }
            }
        };
        if data_first {
            data(&mut out);
            out.push(".text".into());
            out.extend(code.iter().cloned());
        } else {
            out.extend(code.iter().cloned());
            data(&mut out);
        }
        out.join("\n") + "\n"
    };
    let keys = |text: &str| -> Result<std::collections::BTreeMap<(String, String), usize>, String> {
        let a = analyze(text).map_err(|e| format!("{} {}", e.site(), e.msg))?;
        let lines: Vec<&str> = text.lines().collect();
        let mut m = std::collections::BTreeMap::new();
        for d in a.all_diags() {
            let src = lines.get(d.span.start.line).map(|l| l.split('#').next().unwrap_or("").trim().to_string()).unwrap_or_default();
            *m.entry((if d.code.is_empty() { d.title.clone() } else { d.code.clone() }, src)).or_insert(0) += 1;
        }
        Ok(m)
    };
    let base = render(0);
    let Ok(k0) = keys(&base) else { return };
    acc.count("base_diagnostics", k0.len() as u64);
    for (style, name) in [(1, "comment-behind-the-directive-line"), (2, "comment-line-between"), (3, "blank-line-between"), (4, "comment-behind-every-line"), (5, "continuation-not-indented")] {
        let t1 = render(style);
        acc.evaluations += 1;
        acc.count("data_list_pairs", 1);
        acc.nontrivial.insert(hash64(&t1));
        match keys(&t1) {
            Err(e) => acc.violation("C13|data-list|panic".to_string(), format!("{name}: the analysis panics: {e}"), json!({"base": base, "rewritten": t1})),
            Ok(k1) => {
                if k0 == k1 {
                    acc.count("pairs_equal", 1);
                } else {
                    let d = k0.keys().chain(k1.keys()).find(|k| k0.get(*k) != k1.get(*k)).cloned().unwrap_or_default();
                    let dir = if k1.get(&d).copied().unwrap_or(0) > k0.get(&d).copied().unwrap_or(0) { "gained" } else { "lost" };
                    acc.violation(
                        format!("C13|data-list|{name}|{dir}"),
                        format!("a data list that continues on the next line: {name} changes the diagnostics: `{}` on `{}` is {dir}", d.0, d.1),
                        json!({"base": base, "rewritten": t1}),
                    );
                }
            }
        }
    }
}

/// Loads and stores that name a label (`lw rd, label`, `sw rs, label, tmp`) against their written-out
/// expansions (`la rd, label` / `lw rd, 0(rd)`; `la tmp, label` / `sw rs, 0(tmp)`): the same diagnostics on the
/// same logical statements.
fn label_memory_case(rng: &mut Rng, acc: &mut Acc) {
    // statements: (pseudo text, expansion lines)
    let temps = ["t0", "t1", "t2", "t3", "t4", "t5", "t6"];
    let pick2 = |rng: &mut Rng| -> (&'static str, &'static str) {
        let a = rng.below(temps.len());
        let b = (a + 1 + rng.below(temps.len() - 1)) % temps.len();
        (temps[a], temps[b])
    };
    let mut stmts: Vec<(String, Vec<String>)> = Vec::new();
    let plain = |t: &str| (t.to_string(), vec![t.to_string()]);
    stmts.push(plain("main:"));
    for _ in 0..2 + rng.below(4) {
        let (v, tmp) = pick2(rng);
        let w = *rng.pick(&["w", "h", "b"]);
        match rng.below(5) {
            0 => {
                // a value that is produced and stored
                stmts.push(plain(&format!("li {v}, {}", rng.range(1, 90))));
                stmts.push((format!("s{w} {v}, cell, {tmp}"), vec![format!("la {tmp}, cell"), format!("s{w} {v}, 0({tmp})")]));
            }
            1 => {
                // a store of a register that was never assigned
                stmts.push((format!("s{w} {v}, cell, {tmp}"), vec![format!("la {tmp}, cell"), format!("s{w} {v}, 0({tmp})")]));
            }
            2 => {
                // a load that is used
                stmts.push((format!("l{w} a0, cell"), vec!["la a0, cell".to_string(), format!("l{w} a0, 0(a0)")]));
                stmts.push(plain("li a7, 1"));
                stmts.push(plain("ecall"));
            }
            3 => {
                // a load nobody uses
                stmts.push((format!("l{w} {v}, cell"), vec![format!("la {v}, cell"), format!("l{w} {v}, 0({v})")]));
            }
            _ => {
                // a value kept across an ecall and stored afterwards
                stmts.push(plain(&format!("li {v}, 3")));
                stmts.push(plain("li a0, 4"));
                stmts.push(plain("li a7, 1"));
                stmts.push(plain("ecall"));
                stmts.push((format!("sw {v}, cell, {tmp}"), vec![format!("la {tmp}, cell"), format!("sw {v}, 0({tmp})")]));
            }
        }
    }
    stmts.push(plain("li a7, 10"));
    stmts.push(plain("ecall"));
    let render = |expand: &dyn Fn(usize) -> bool| -> (String, Vec<usize>) {
        let mut out = vec!["# loads and stores that name a label".to_string()];
        let mut owner = vec![usize::MAX];
        for (k, (pseudo, exp)) in stmts.iter().enumerate() {
            let ls: Vec<String> = if expand(k) { exp.clone() } else { vec![pseudo.clone()] };
            for l in ls {
                out.push(if l.ends_with(':') { l } else { format!("    {l}") });
                owner.push(k);
            }
        }
        out.push(".data".into());
        owner.push(usize::MAX);
        out.push("cell: .word 0".into());
        owner.push(usize::MAX);
        (out.join("\n") + "\n", owner)
    };
    let keys = |text: &str, owner: &[usize]| -> Result<std::collections::BTreeSet<(String, usize)>, String> {
        let a = analyze(text).map_err(|e| format!("{} {}", e.site(), e.msg))?;
        Ok(a.all_diags().iter().map(|d| (if d.code.is_empty() { d.title.clone() } else { d.code.clone() }, owner.get(d.span.start.line).copied().unwrap_or(usize::MAX))).collect())
    };
    let (t0, o0) = render(&|_| false);
    let Ok(k0) = keys(&t0, &o0) else { return };
    acc.count("base_diagnostics", k0.len() as u64);
    let mask = rng.next_u32();
    let variants: [(&str, Box<dyn Fn(usize) -> bool>); 2] = [("all-expanded", Box::new(|_| true)), ("some-expanded", Box::new(move |k| mask >> (k % 32) & 1 == 1))];
    for (name, f) in &variants {
        let (t1, o1) = render(f.as_ref());
        if t1 == t0 {
            continue;
        }
        acc.evaluations += 1;
        acc.count("label_memory_pairs", 1);
        acc.nontrivial.insert(hash64(&t1));
        match keys(&t1, &o1) {
            Err(e) => acc.violation("C13|label-memory|panic".to_string(), format!("the expanded spelling makes the analysis panic: {e}"), json!({"base": t0, "rewritten": t1})),
            Ok(k1) => {
                if k0 == k1 {
                    acc.count("pairs_equal", 1);
                } else {
                    let d = k0.symmetric_difference(&k1).next().cloned().unwrap_or_default();
                    let dir = if k1.contains(&d) { "gained" } else { "lost" };
                    acc.violation(
                        format!("C13|label-memory|{dir}|{}", d.0),
                        format!("a load / store that names a label, written out as la + access ({name}): `{}` on statement {} `{}` is {dir}", d.0, d.1, stmts.get(d.1).map(|s| s.0.as_str()).unwrap_or("?")),
                        json!({"base": t0, "rewritten": t1}),
                    );
                }
            }
        }
    }
}

fn li_expansion_case(rng: &mut Rng, acc: &mut Acc) {
    let stmts = li_family(rng);
    // build one variant: `expand(k)` says whether the k-th Li is written as lui (+ addi)
    let build = |expand: &dyn Fn(usize) -> bool| -> (Program, Vec<usize>) {
        let mut p = Program::default();
        let mut owner: Vec<usize> = Vec::new(); // instruction index -> statement index
        let mut n_li = 0;
        for (si, st) in stmts.iter().enumerate() {
            match st {
                Stmt::L(l) => p.label(l),
                Stmt::I(i) => {
                    p.push(i.clone());
                    owner.push(si);
                }
                Stmt::Li(rd, k) => {
                    if expand(n_li) && !(-2048..2048).contains(k) {
                        let hi = (k.wrapping_add(0x800) as u32) >> 12;
                        let lo = k.wrapping_sub((hi << 12) as i32);
                        p.push(Ins::Lui { rd: *rd, imm: hi as i32 });
                        owner.push(si);
                        if lo != 0 {
                            p.push(Ins::addi(*rd, *rd, lo));
                            owner.push(si);
                        }
                    } else {
                        p.push(Ins::li(*rd, *k));
                        owner.push(si);
                    }
                    n_li += 1;
                }
            }
        }
        (p, owner)
    };
    let keys = |p: &Program, owner: &[usize]| -> Result<std::collections::BTreeMap<(String, usize), usize>, String> {
        let pr = print(p, &Style::base(), &mut Rng::new(1));
        let a = analyze(&pr.text).map_err(|e| format!("{} {}", e.site(), e.msg))?;
        let mut m = std::collections::BTreeMap::new();
        for d in a.all_diags() {
            let st = pr.line_to_ins.get(&d.span.start.line).and_then(|k| owner.get(*k)).copied().unwrap_or(usize::MAX);
            // (an unused-value warning inside an expansion is the same statement's warning)
            *m.entry((if d.code.is_empty() { d.title.clone() } else { d.code.clone() }, st)).or_insert(0) += 1;
        }
        Ok(m)
    };
    let (p0, o0) = build(&|_| false);
    let mask = rng.next_u32();
    let variants: [(&str, Box<dyn Fn(usize) -> bool>); 2] = [("all-expanded", Box::new(|_| true)), ("some-expanded", Box::new(move |k| mask >> (k % 32) & 1 == 1))];
    let Ok(k0) = keys(&p0, &o0) else { return };
    for (name, f) in &variants {
        let (p1, o1) = build(f.as_ref());
        acc.evaluations += 1;
        let t0 = print(&p0, &Style::base(), &mut Rng::new(1)).text;
        let t1 = print(&p1, &Style::base(), &mut Rng::new(1)).text;
        if t0 == t1 {
            continue;
        }
        acc.count("li_expansion_pairs", 1);
        acc.nontrivial.insert(hash64(&t1));
        match keys(&p1, &o1) {
            Err(e) => acc.violation("C13|li-expansion|panic".to_string(), format!("the expanded spelling makes the analysis panic: {e}"), json!({"base": t0, "rewritten": t1})),
            Ok(k1) => {
                // multiplicities inside one statement may differ (two instructions instead of one): compare presence
                let a: std::collections::BTreeSet<_> = k0.keys().cloned().collect();
                let b: std::collections::BTreeSet<_> = k1.keys().cloned().collect();
                if a != b {
                    let d = a.symmetric_difference(&b).next().cloned().unwrap_or_default();
                    let dir = if b.contains(&d) { "gained" } else { "lost" };
                    acc.violation(
                        format!("C13|li-expansion|{dir}|{}", d.0),
                        format!("`li` written as lui/addi ({name}) changes the diagnostics: `{}` on statement {} is {dir}", d.0, d.1),
                        json!({"rewrite": name, "base": t0, "rewritten": t1}),
                    );
                } else {
                    acc.count("pairs_equal", 1);
                }
            }
        }
    }
}

pub fn run(ctx: &Ctx) -> i32 {
    let mut rep = Report::new(
        ctx,
        "each program (conforming, with one planted violation of any class, or from the wild profile) is printed in the base-ISA style and again under \
         18 single-feature rewrites and several random compositions (spacing, tabs, optional/doubled commas, comments, blank lines, mnemonic case, numeric/ABI/fp \
         register names, dec/hex/bin/char immediates, label placement, omitted zero offsets, every pseudo-instruction vs its official expansion); the multisets of \
         (diagnostic kind, instruction index, register concerned) must be equal; a family of programs in which 32-bit constants decide the diagnostics (big frames, computed ecall numbers) is compared between `li` and its expansion lui/addi by (kind, logical statement). distinct_nontrivial = distinct (program, rewrite) pairs compared whose base program had >= 1 diagnostic or >= 30 instructions",
    );
    rep.assume("register names are case-sensitive in the tool and upper-case registers are not among the rewrites the property lists");
    rep.assume("a program whose diagnostics differ between two analyses of the identical text is counted as nondeterministic (C10) and not judged here");
    let per_shard = ctx.tier.pick(12, 700);
    let styles = single_feature_styles();
    let acc = run_sharded(ctx, |shard| {
        let mut acc = Acc::new();
        for k in 0..per_shard {
            let mut rng = Rng::derive(ctx.seed, 13_000 + shard as u64, k as u64);
            let (prof, inject) = match rng.below(5) {
                0 => (Profile::conforming(), None),
                1 | 2 => (Profile::conforming(), Some(ALL_INJECT[rng.below(ALL_INJECT.len())])),
                _ => (Profile::wild_surface(), None),
            };
            let mut g = gen::generate(&mut rng, &prof, inject);
            if k % 6 == 5 {
                // a program full of boundary immediates: the notation of a number must not matter
                let s = crate::shapes::literal_family(&mut rng);
                acc.note("shapes", s.name);
                g.prog = s.prog;
                g.base = g.prog.clone();
                g.site = None;
                g.funcs.clear();
            }
            let base_printed = print(&g.prog, &Style::base(), &mut Rng::new(1));
            let base_case = Case { g: g.clone(), printed: base_printed };
            let Ok(a0) = analyze(&base_case.printed.text) else {
                acc.count("base_analysis_panicked", 1);
                continue;
            };
            let d0 = diag_multiset(&base_case, &a0.all_diags());
            // determinism pre-check on the identical text
            let Ok(a0b) = analyze(&base_case.printed.text) else { continue };
            if diag_multiset(&base_case, &a0b.all_diags()) != d0 {
                acc.count("nondeterministic_base_skipped", 1);
                continue;
            }
            acc.count("base_programs", 1);
            acc.count("base_diagnostics", d0.values().sum::<usize>() as u64);
            let mut variants: Vec<(String, Style)> = styles.iter().map(|(n, s)| ((*n).to_string(), s.clone())).collect();
            for r in 0..ctx.tier.pick(2, 6) {
                variants.push((format!("composition-{r}"), Style::random(&mut rng)));
            }
            for (name, st) in variants {
                let mut prng = Rng::derive(ctx.seed, 13_999, rng.next_u64());
                let printed = print(&g.prog, &st, &mut prng);
                let case = Case { g: g.clone(), printed };
                acc.evaluations += 1;
                acc.note("rewrites", name.split('-').next().unwrap_or("").to_string() + if name.starts_with("composition") { "" } else { "" });
                let a1 = match analyze(&case.printed.text) {
                    Ok(a) => a,
                    Err(p) => {
                        acc.violation(
                            format!("C13|{}|panic|{}", name.split("-0").next().unwrap_or(&name), p.site()),
                            format!("rewritten program makes the analysis panic at {}: {}", p.site(), p.msg),
                            json!({"rewrite": name, "base": base_case.printed.text, "rewritten": case.printed.text}),
                        );
                        continue;
                    }
                };
                let d1 = diag_multiset(&case, &a1.all_diags());
                if !d0.is_empty() || g.prog.n_ins() >= 30 {
                    acc.nontrivial.insert(hash64(&format!("{name}{}", case.printed.text)));
                }
                if let Some((key, n0, n1)) = multiset_diff(&d0, &d1) {
                    let rname = if name.starts_with("composition") { "composition".to_string() } else { name.clone() };
                    let dir = if n1 > n0 { "gained" } else { "lost" };
                    acc.violation(
                        format!("C13|{rname}|{dir}|{}", key.0),
                        format!("rewrite `{name}` changes the diagnostics: {:?} occurs {n0}x in the base spelling and {n1}x in the rewritten one", key),
                        json!({"rewrite": name, "base": base_case.printed.text, "rewritten": case.printed.text}),
                    );
                } else {
                    acc.count("pairs_equal", 1);
                }
                if k == 0 && shard == 0 && acc.samples.len() < 2 {
                    let lines: Vec<&str> = case.printed.text.lines().skip(9).take(6).collect();
                    acc.sample(json!({"rewrite": name, "excerpt": lines, "diagnostics": d0.len()}));
                }
            }
        }
        acc
    });
    rep.acc.merge(acc);
    // ---- `li rd, K` against its official expansion `lui rd, hi` (+ `addi rd, rd, lo`): two instructions
    // instead of one, so diagnostics are identified by the logical statement they belong to
    let mut acc = Acc::new();
    let mut rng = Rng::derive(ctx.seed, 13_500, 0);
    for _ in 0..ctx.tier.pick(150, 3000) {
        li_expansion_case(&mut rng, &mut acc);
    }
    rep.acc.merge(acc);
    // ---- layouts of data lists that continue over several lines
    let mut acc = Acc::new();
    let mut rng = Rng::derive(ctx.seed, 13_600, 0);
    for _ in 0..ctx.tier.pick(100, 2000) {
        data_list_case(&mut rng, &mut acc);
    }
    rep.acc.merge(acc);
    // ---- loads / stores that name a label against their expansions
    let mut acc = Acc::new();
    let mut rng = Rng::derive(ctx.seed, 13_700, 0);
    for _ in 0..ctx.tier.pick(150, 3000) {
        label_memory_case(&mut rng, &mut acc);
    }
    rep.acc.merge(acc);
    rep.require("label_memory_pairs", 100);
    rep.require("data_list_pairs", 100);
    rep.require("li_expansion_pairs", 100);
    rep.require("pairs_equal", 500);
    rep.require("base_diagnostics", 50);
    rep.finish()
}
