//! C13 - diagnostics do not depend on how the same program is written.

use super::common::*;
use crate::gen::{self, Profile, ALL_INJECT};
use crate::print::{print, Style};
use crate::report::{run_sharded, Acc, Ctx, Report};
use crate::rng::{hash64, Rng};
use serde_json::json;

/// Single-feature variants of the base style, each named after the rewrite it performs.
fn single_feature_styles() -> Vec<(&'static str, Style)> {
    let b = Style::base();
    vec![
        ("pseudo-instructions", Style { p_pseudo: 1.0, ..b.clone() }),
        ("numeric-register-names", Style { p_numeric: 1.0, ..b.clone() }),
        ("mixed-register-names", Style { p_numeric: 0.5, allow_fp: true, ..b.clone() }),
        ("upper-case-mnemonics", Style { p_upper: 1.0, ..b.clone() }),
        ("hex-immediates", Style { p_hex: 1.0, ..b.clone() }),
        ("binary-immediates", Style { p_bin: 1.0, ..b.clone() }),
        ("char-immediates", Style { p_char: 1.0, ..b.clone() }),
        ("omitted-zero-offsets", Style { p_omit_zero: 1.0, ..b.clone() }),
        ("labels-in-front-of-instruction", Style { p_label_inline: 1.0, ..b.clone() }),
        ("trailing-comments", Style { p_trailing_comment: 0.7, ..b.clone() }),
        ("blank-and-comment-lines", Style { p_blank_line: 0.4, p_comment_line: 0.3, ..b.clone() }),
        ("no-commas", Style { sep: 2, ..b.clone() }),
        ("tight-commas", Style { sep: 1, ..b.clone() }),
        ("spaced-commas", Style { sep: 3, ..b.clone() }),
        ("doubled-commas", Style { sep: 4, ..b.clone() }),
        ("tab-separated", Style { sep: 5, indent: 1, ..b.clone() }),
        ("no-indentation", Style { indent: 2, ..b.clone() }),
        ("no-final-newline", Style { trailing_newline: false, ..b }),
    ]
}

pub fn run(ctx: &Ctx) -> i32 {
    let mut rep = Report::new(
        ctx,
        "each program (conforming, with one planted violation of any class, or from the wild profile) is printed in the base-ISA style and again under \
         18 single-feature rewrites and several random compositions (spacing, tabs, optional/doubled commas, comments, blank lines, mnemonic case, numeric/ABI/fp \
         register names, dec/hex/bin/char immediates, label placement, omitted zero offsets, every pseudo-instruction vs its official expansion); the multisets of \
         (diagnostic kind, instruction index, register concerned) must be equal. distinct_nontrivial = distinct (program, rewrite) pairs compared whose base program had >= 1 diagnostic or >= 30 instructions",
    );
    rep.assume("register names are case-sensitive in the tool and upper-case registers are not among the rewrites the property lists");
    rep.assume("a program whose diagnostics differ between two analyses of the identical text is counted as nondeterministic (C10) and not judged here");
    let per_shard = ctx.tier.pick(12, 700);
    let styles = single_feature_styles();
    let acc = run_sharded(ctx, |shard| {
        let mut acc = Acc::new();
        for k in 0..per_shard {
            let mut rng = Rng::derive(ctx.seed, 13_000 + shard as u64, k as u64);
            let (prof, inject) = match rng.below(5) {
                0 => (Profile::conforming(), None),
                1 | 2 => (Profile::conforming(), Some(ALL_INJECT[rng.below(ALL_INJECT.len())])),
                _ => (Profile::wild_surface(), None),
            };
            let mut g = gen::generate(&mut rng, &prof, inject);
            if k % 6 == 5 {
                // a program full of boundary immediates: the notation of a number must not matter
                let s = crate::shapes::literal_family(&mut rng);
                acc.note("shapes", s.name);
                g.prog = s.prog;
                g.base = g.prog.clone();
                g.site = None;
                g.funcs.clear();
            }
            let base_printed = print(&g.prog, &Style::base(), &mut Rng::new(1));
            let base_case = Case { g: g.clone(), printed: base_printed };
            let Ok(a0) = analyze(&base_case.printed.text) else {
                acc.count("base_analysis_panicked", 1);
                continue;
            };
            let d0 = diag_multiset(&base_case, &a0.all_diags());
            // determinism pre-check on the identical text
            let Ok(a0b) = analyze(&base_case.printed.text) else { continue };
            if diag_multiset(&base_case, &a0b.all_diags()) != d0 {
                acc.count("nondeterministic_base_skipped", 1);
                continue;
            }
            acc.count("base_programs", 1);
            acc.count("base_diagnostics", d0.values().sum::<usize>() as u64);
            let mut variants: Vec<(String, Style)> = styles.iter().map(|(n, s)| ((*n).to_string(), s.clone())).collect();
            for r in 0..ctx.tier.pick(2, 6) {
                variants.push((format!("composition-{r}"), Style::random(&mut rng)));
            }
            for (name, st) in variants {
                let mut prng = Rng::derive(ctx.seed, 13_999, rng.next_u64());
                let printed = print(&g.prog, &st, &mut prng);
                let case = Case { g: g.clone(), printed };
                acc.evaluations += 1;
                acc.note("rewrites", name.split('-').next().unwrap_or("").to_string() + if name.starts_with("composition") { "" } else { "" });
                let a1 = match analyze(&case.printed.text) {
                    Ok(a) => a,
                    Err(p) => {
                        acc.violation(
                            format!("C13|{}|panic|{}", name.split("-0").next().unwrap_or(&name), p.site()),
                            format!("rewritten program makes the analysis panic at {}: {}", p.site(), p.msg),
                            json!({"rewrite": name, "base": base_case.printed.text, "rewritten": case.printed.text}),
                        );
                        continue;
                    }
                };
                let d1 = diag_multiset(&case, &a1.all_diags());
                if !d0.is_empty() || g.prog.n_ins() >= 30 {
                    acc.nontrivial.insert(hash64(&format!("{name}{}", case.printed.text)));
                }
                if let Some((key, n0, n1)) = multiset_diff(&d0, &d1) {
                    let rname = if name.starts_with("composition") { "composition".to_string() } else { name.clone() };
                    let dir = if n1 > n0 { "gained" } else { "lost" };
                    acc.violation(
                        format!("C13|{rname}|{dir}|{}", key.0),
                        format!("rewrite `{name}` changes the diagnostics: {:?} occurs {n0}x in the base spelling and {n1}x in the rewritten one", key),
                        json!({"rewrite": name, "base": base_case.printed.text, "rewritten": case.printed.text}),
                    );
                } else {
                    acc.count("pairs_equal", 1);
                }
                if k == 0 && shard == 0 && acc.samples.len() < 2 {
                    let lines: Vec<&str> = case.printed.text.lines().skip(9).take(6).collect();
                    acc.sample(json!({"rewrite": name, "excerpt": lines, "diagnostics": d0.len()}));
                }
            }
        }
        acc
    });
    rep.acc.merge(acc);
    rep.require("pairs_equal", 500);
    rep.require("base_diagnostics", 50);
    rep.finish()
}
