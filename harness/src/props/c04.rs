//! C04 - convention-conforming programs produce no diagnostics.

use super::common::*;
use crate::gen::Profile;
use crate::report::{run_sharded, Acc, Ctx, Report};
use crate::rng::{hash64, Rng};
use serde_json::json;

pub fn run(ctx: &Ctx) -> i32 {
    let mut rep = Report::new(
        ctx,
        "programs generated conforming-by-construction (random call graph incl. recursion, nesting of if/else and loops, \
         frame layouts, saved-register subsets, argument/return registers, ecalls, early returns, mid-function exits), printed \
         under a random surface style, each confirmed by the dynamic convention monitor on 3 executions of the reference machine; \
         distinct_nontrivial = distinct program texts with >= 20 instructions and >= 1 call whose premise check passed",
    );
    rep.assume("top-level code reads only a0/a1, the stack pointer the environment hands it (it may build a frame below it, never given back) and its own definitions; it never reads ra/sN before writing them");
    rep.assume("a program whose premise check (generator audit by the dynamic convention monitor) fails is a generator problem, counted as premise_failed, never a violation");
    let per_shard: usize = ctx.tier.pick(200, 6000);
    let prof = Profile::conforming();
    let acc = run_sharded(ctx, |shard| {
        let mut acc = Acc::new();
        for k in 0..per_shard {
            let mut rng = Rng::derive(ctx.seed, 4_000 + shard as u64, k as u64);
            let mut c = make_case(&mut rng, &prof, None, None);
            if k % 16 == 15 {
                // hand-written conforming family: frames too big for an addi, built with lui / li
                let s = crate::shapes::big_frame_family(&mut rng);
                acc.note("shapes", s.name);
                c.g.prog = s.prog;
                c.g.base = c.g.prog.clone();
                c.g.funcs.clear();
                c.printed = crate::print::print(&c.g.prog, &crate::print::Style::plain(), &mut Rng::new(1));
            }
            acc.evaluations += 1;
            let n_ins = c.g.prog.n_ins();
            acc.count("instructions_generated", n_ins as u64);
            let (ok, why, steps, capped) = premise_conforming(&c.g.prog, rng.next_u64(), 3, 200_000);
            acc.count("machine_steps", steps);
            if capped {
                acc.count("executions_truncated_by_step_cap", 1);
            }
            if !ok {
                acc.count("premise_failed", 1);
                acc.note("premise_failures", why.unwrap_or_default());
                continue;
            }
            let a = match analyze(&c.printed.text) {
                Ok(a) => a,
                Err(p) => {
                    acc.violation(
                        format!("C04|panic|{}", p.site()),
                        format!("analysis of a conforming program panics at {}: {}", p.site(), p.msg),
                        json!({"program": c.printed.text, "shard": shard, "index": k}),
                    );
                    continue;
                }
            };
            let diags = a.all_diags();
            acc.count("functions", c.g.funcs.len() as u64);
            acc.count("recursive_functions", c.g.funcs.iter().filter(|f| f.recursive).count() as u64);
            acc.count("functions_with_frame", c.g.funcs.iter().filter(|f| f.frame > 0).count() as u64);
            if diags.is_empty() {
                acc.count("clean_programs", 1);
                if n_ins >= 20 && c.g.prog.instructions().iter().any(|i| i.is_call()) {
                    acc.nontrivial.insert(hash64(&c.printed.text));
                }
                if k == 0 && shard < 2 {
                    let head: Vec<&str> = c.printed.text.lines().take(14).collect();
                    acc.sample(json!({"program_head": head, "instructions": n_ins, "functions": c.g.funcs.len()}));
                }
            } else {
                for d in &diags {
                    let kind = ins_kind_at(&c, d.span.start.line);
                    acc.violation(
                        format!("C04|{}|{}", d.code, kind),
                        format!("conforming program gets a diagnostic: {}", diag_brief(d)),
                        json!({"program": c.printed.text, "diagnostic": diag_brief(d), "shard": shard, "index": k}),
                    );
                }
            }
        }
        acc
    });
    rep.acc.merge(acc);
    rep.require("clean_programs", 100);
    rep.finish()
}
