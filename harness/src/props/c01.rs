//! C01 - claimed register and stack values are true on every execution.

use super::common::*;
use super::dynamic::{join, run_dynamic, Which};
use crate::gen::Profile;
use crate::print::Style;
use crate::report::{run_sharded, Acc, Ctx, Report};
use crate::rng::{hash64, Rng};
use serde_json::json;

pub fn workload(ctx: &Ctx, which: Which, base: u64, per_shard: usize, runs: usize) -> Acc {
    run_sharded(ctx, |shard| {
        let mut acc = Acc::new();
        for k in 0..per_shard {
            let mut rng = Rng::derive(ctx.seed, base + shard as u64, k as u64);
            let prof = if rng.chance(0.75) { Profile::wild() } else { Profile::conforming() };
            let style = if rng.chance(0.8) { Style::plain() } else { Style::random(&mut rng) };
            let mut c = make_case(&mut rng, &prof, None, Some(&style));
            if k % 4 == 3 && which == Which::C01 {
                // directed families: stack slots carried around nested loops, CSR traffic, functions that loop to their own entry
                let s = match rng.below(9) {
                    0..=3 => crate::shapes::slot_loop_family(&mut rng),
                    4 | 5 => crate::shapes::csr_family(&mut rng),
                    6 => crate::shapes::unlisted_ecall_family(&mut rng),
                    _ => crate::shapes::self_loop_family(&mut rng),
                };
                acc.note("shapes", s.name);
                c.g.prog = s.prog;
                c.g.base = c.g.prog.clone();
                c.g.funcs.clear();
                c.printed = crate::print::print(&c.g.prog, &Style::plain(), &mut Rng::new(1));
            }
            acc.evaluations += 1;
            let a = match analyze(&c.printed.text) {
                Ok(a) => a,
                Err(p) => {
                    acc.count(&format!("analysis_panicked:{}", p.class()), 1);
                    continue;
                }
            };
            let j = match join(&c, &a) {
                Ok(j) => j,
                Err(why) => {
                    acc.count("join_failed", 1);
                    acc.note("join_failures", why);
                    continue;
                }
            };
            acc.count("programs_joined", 1);
            acc.count("graph_nodes", j.gv.nodes.len() as u64);
            let mut checked = 0u64;
            let mut steps = 0u64;
            for r in 0..runs {
                let st = run_dynamic(&j, &c, rng.next_u64() ^ r as u64, 100_000, which, &mut acc);
                steps += st.steps;
                acc.count("instructions_executed", st.steps);
                acc.count("claims_checked", st.claims_checked);
                acc.count("chains_checked", st.chains_checked);
                acc.count("transfers_checked", st.transfers_checked);
                checked += st.claims_checked + st.chains_checked + st.transfers_checked;
                match st.stop {
                    crate::machine::Stop::Exit(_) => acc.count("runs_exit", 1),
                    crate::machine::Stop::StepCap => acc.count("runs_truncated", 1),
                    crate::machine::Stop::Fault(f) => {
                        acc.count("runs_fault", 1);
                        acc.note("faults", f.split(':').next().unwrap_or("").to_string());
                    }
                }
                if !st.contributed {
                    acc.count("runs_disqualified_by_premise", 1);
                }
            }
            if checked > 0 && steps >= 10 {
                acc.nontrivial.insert(hash64(&c.printed.text));
            }
            if k == 0 && shard == 0 {
                let head: Vec<&str> = c.printed.text.lines().take(12).collect();
                acc.sample(json!({"program_head": head, "graph_nodes": j.gv.nodes.len(), "checks_on_this_program": checked}));
            }
        }
        acc
    })
}

pub fn run(ctx: &Ctx) -> i32 {
    let mut rep = Report::new(
        ctx,
        "programs from the structured generator (75% with conformance clauses relaxed: dead values, stale temporaries, \
         spills whose source is redefined, partial-width stack accesses, boundary constants, all 18 operators; 25% conforming), \
         analysed by the real pipeline, then executed on the reference RV32IM machine from random initial registers/memory; at every \
         executed instruction each Constant / Address / entry-value+const register claim and each stack-slot claim (in and out) is compared \
         with the machine state of the current function activation. distinct_nontrivial = distinct programs with >= 10 executed instructions and >= 1 checked claim",
    );
    rep.assume("an execution stops contributing once a callee breaks sp / saved registers / its frame bounds (C01's premise)");
    rep.assume("claims on instructions no execution reaches are not judged");
    let per_shard = ctx.tier.pick(150, 2500);
    let runs = ctx.tier.pick(4, 8);
    let acc = workload(ctx, Which::C01, 1_000, per_shard, runs);
    rep.acc.merge(acc);
    rep.require("claims_checked:constant", 1000);
    rep.require("claims_checked:entry-plus-const", 1000);
    rep.require("claims_checked:stack-slot", 1000);
    rep.require("claims_checked:address", 20);
    rep.finish()
}
