//! Reference-machine monitors shared by C01, C02 and C03: the generated program is executed
//! concretely while the analyzer's claims attached to the instruction being executed are
//! compared with the machine state (C01), every dynamic def->use chain is checked against the
//! liveness sets along the executed path (C02), and every executed control transfer is looked
//! up in the graph (C03).

use super::common::*;
use crate::ast::*;
use crate::graph::{GraphView, Loc, NodeView, Val};
use crate::machine::{ConvMon, Kind, Machine, Stop};
use crate::report::Acc;
use crate::rva::{Analysis, Diag};
use serde_json::json;
use std::collections::HashMap;

#[derive(Clone, Copy, PartialEq, Eq, Debug)]
pub enum Which {
    C01,
    C02,
    C03,
}

pub struct Joined {
    pub flat: Flat,
    pub gv: GraphView,
    /// per instruction: graph nodes of its source line (excluding entry pseudo-nodes)
    pub node_of: Vec<Vec<usize>>,
    /// per instruction: FuncEntry pseudo-node in front of it, if any
    pub entry_of: Vec<Option<usize>>,
    pub diags: Vec<Diag>,
}

pub fn join(c: &Case, a: &Analysis) -> Result<Joined, String> {
    let cfg = a.cfg.as_ref().map_err(|e| format!("cfg-error:{}", e.code))?;
    let gv = GraphView::of(cfg);
    let flat = c.g.prog.flatten();
    let n = flat.ins.len();
    if c.printed.ins.len() != n {
        return Err("printer/flatten mismatch".into());
    }
    let mut by_line: HashMap<usize, Vec<usize>> = HashMap::new();
    let mut entry_by_line: HashMap<usize, usize> = HashMap::new();
    for nd in &gv.nodes {
        if nd.is_program_entry {
            continue;
        }
        if nd.is_func_entry {
            entry_by_line.insert(nd.line, nd.idx);
        } else {
            by_line.entry(nd.line).or_default().push(nd.idx);
        }
    }
    let mut node_of = Vec::with_capacity(n);
    let mut entry_of = Vec::with_capacity(n);
    let mut used = 0usize;
    for k in 0..n {
        let line = c.printed.ins[k].line;
        let v = by_line.get(&line).cloned().unwrap_or_default();
        if v.is_empty() {
            return Err(format!("no-node-for-line:{line}"));
        }
        used += v.len();
        node_of.push(v);
        entry_of.push(entry_by_line.get(&line).copied());
    }
    let total: usize = by_line.values().map(Vec::len).sum();
    if used != total {
        return Err("node-without-instruction".into());
    }
    Ok(Joined { flat, gv, node_of, entry_of, diags: a.all_diags() })
}

// ---------------------------------------------------------------------------------------

#[derive(Clone, Copy, PartialEq, Eq, Debug)]
enum DefKind {
    /// value present when the program / the function activation started
    Entry,
    /// written by an ordinary instruction
    Ins,
    /// written by the `jal` of a call (ra)
    CallLink,
    /// result register of an ecall
    EcallResult,
    /// the convention says a call / ecall clobbered it
    Clobber,
}

#[derive(Clone, Copy, Debug)]
struct Def {
    pos: usize,
    kind: DefKind,
    /// instruction index of the defining instruction (usize::MAX when none)
    ins: usize,
}

#[derive(Clone, Debug)]
struct Chain {
    def: Def,
    checked: usize,
    /// (a, b]: positions to skip (callee activations a restored register slept through)
    excl: Vec<(usize, usize)>,
    /// value was produced inside an activation of this function and not yet redefined
    from_callee: Option<usize>,
}

struct SavedChains {
    regs: Vec<(Reg, Chain)>,
    call_pos: usize,
    call_ins: usize,
    func: Option<usize>,
}

#[derive(Clone, Copy, Debug)]
struct SlotStore {
    step: u64,
    bytes: u32,
    src: Reg,
}

pub struct DynStats {
    pub steps: u64,
    pub claims_checked: u64,
    pub chains_checked: u64,
    pub transfers_checked: u64,
    pub stop: Stop,
    pub contributed: bool,
    /// a false claim was seen in this execution (later ones are likely consequences)
    pub violated: bool,
}

fn meaning(v: &Val, j: &Joined, entry_x: &[u32; 32]) -> Option<u32> {
    match v {
        Val::Const(c) => Some(*c as u32),
        Val::Addr(l) => j.flat.addr_of_label(l),
        Val::Orig(q, k) => Some(entry_x[*q as usize].wrapping_add(*k as u32)),
        Val::Other(_) => None,
    }
}

fn reg_class(r: Reg) -> &'static str {
    match r {
        0 => "zero",
        1 => "ra",
        2 => "sp",
        r if is_saved(r) => "saved",
        r if is_temp(r) => "temp",
        r if is_arg(r) => "arg",
        _ => "other",
    }
}

/// Execute the program once and feed the monitors of `which`.
#[allow(clippy::too_many_lines)]
pub fn run_dynamic(j: &Joined, c: &Case, seed: u64, cap: u64, which: Which, acc: &mut Acc) -> DynStats {
    let flat = &j.flat;
    let gv = &j.gv;
    let mut m = Machine::new(flat, seed, cap);
    let mut conv = ConvMon::new(&m);
    let mut stats = DynStats { steps: 0, claims_checked: 0, chains_checked: 0, transfers_checked: 0, stop: Stop::StepCap, contributed: true, violated: false };
    let program = || json!({"program": c.printed.text, "machine_seed": seed});

    // ---- C01 shadow state
    let mut contributing = true;
    let mut slot_store: HashMap<u32, SlotStore> = HashMap::new(); // byte address -> last store covering it
    let mut reg_def_step = [0u64; 32];
    let mut reg_def_ins = [usize::MAX; 32];
    let mut last_ecall_step = 0u64;
    let mut call_nodes: Vec<(usize, usize)> = Vec::new(); // (call node, frame depth)
    let mut min_sp_since: HashMap<u32, u32> = HashMap::new();

    // ---- C02 shadow state
    let mut trace: Vec<usize> = vec![0]; // ProgramEntry
    // per trace position: 1 = pseudo entry node (live_in not meaningful), 2 = call / return
    // instruction (its static live_out is not what flows on dynamically)
    let mut tflag: Vec<u8> = vec![1];
    let entry_def = Def { pos: 0, kind: DefKind::Entry, ins: usize::MAX };
    let mut chains: Vec<Chain> =
        (0..32).map(|_| Chain { def: entry_def, checked: 0, excl: vec![], from_callee: None }).collect();
    let mut saved_stack: Vec<SavedChains> = Vec::new();
    let mut frame_entry_pos: Vec<usize> = vec![0];
    let mut frame_func: Vec<Option<usize>> = vec![None];
    let mut read_values: Vec<bool> = vec![false; flat.ins.len()];
    let mut reported: std::collections::HashSet<String> = std::collections::HashSet::new();

    // ---- C03 shadow
    let unreachable_lines: std::collections::HashSet<usize> =
        j.diags.iter().filter(|d| d.code == "unreachable-code").map(|d| d.span.start.line).collect();
    let mut pending_calls: Vec<usize> = Vec::new(); // instruction index of the call per frame

    loop {
        let idx = m.pc;
        if idx >= flat.ins.len() {
            let ev = m.step();
            stats.stop = ev.stop.unwrap_or(Stop::Fault("fell-off-end".into()));
            break;
        }
        let first = j.node_of[idx][0];
        let last = *j.node_of[idx].last().unwrap();
        let ins = flat.ins[idx].clone();
        let frame_entry_x = m.frame().entry_x;
        let depth_before = m.frames.len();

        // ================= C01: claims before the instruction =================
        if which == Which::C01 && contributing && !stats.violated {
            check_claims(j, c, &gv.nodes[first], true, &m, &frame_entry_x, idx, &ins, acc, &mut stats,
                &slot_store, &reg_def_step, &reg_def_ins, last_ecall_step, &min_sp_since, &mut reported, seed);
        }
        // ================= C03: executed node must not be reported unreachable =================
        if which == Which::C03 && unreachable_lines.contains(&gv.nodes[first].line) {
            let sig = format!("C03|reached-unreachable|{}", gv.nodes[first].kind);
            if reported.insert(sig.clone()) {
                acc.violation(sig, format!("instruction `{}` (line {}) is executed but reported as unreachable code", gv.nodes[first].render, gv.nodes[first].line + 1), program());
            }
        }

        let pos_of_this = trace.len();
        trace.push(first);
        tflag.push(if ins.is_call() || ins.is_ret() { 2 } else { 0 });
        if last != first {
            trace.push(last);
            tflag.push(0);
        }

        let ev = m.step();
        stats.steps += 1;
        if let Some(s) = &ev.stop {
            if !matches!(s, Stop::Exit(_)) {
                stats.stop = s.clone();
                break;
            }
        }
        conv.observe(&m, &ins, &ev);
        if contributing && !conv.report.ok() {
            // a callee broke the premises C01 states: this execution stops contributing claims
            // (any of the recorded breaches, not only the first one: an earlier harmless one, like a
            // read of an unassigned register, must not hide it)
            if conv.report.breaches.iter().any(|b| b.starts_with("sp-not-restored") || b.starts_with("saved-not-restored") || b.starts_with("ret-to-wrong") || b.starts_with("stack-access-outside")) {
                contributing = false;
                stats.contributed = false;
            }
        }
        // C02 and C03 speak about calls that behave as the convention says and about returns that go back behind
        // their call: from the first breach on (a return address overwritten through a wild stack pointer sends the
        // execution anywhere, e.g. *behind* an exit ecall) the rest of the execution is not judged
        if !contributing && which != Which::C01 {
            break;
        }

        // ================= C02: def->use chains =================
        if which == Which::C02 {
            // reads
            for (r, _) in &ev.reads {
                let r = *r;
                if r == 0 {
                    continue;
                }
                // a `ret` reads ra; nothing else special
                let q = pos_of_this;
                let ch = &mut chains[r as usize];
                let reader = ins_kind(&ins);
                // live_in over (p, q], live_out over [p, q)
                let p = ch.def.pos;
                let from = p.max(ch.checked);
                let mut bad: Option<(usize, bool)> = None;
                for pos in from..=q {
                    if ch.excl.iter().any(|(a, b)| pos > *a && pos <= *b) {
                        continue;
                    }
                    let node = &gv.nodes[trace[pos]];
                    if pos > p && tflag[pos] != 1 && node.live_in & (1 << r) == 0 {
                        bad = Some((pos, true));
                        break;
                    }
                    if pos < q && tflag[pos] != 2 && node.live_out & (1 << r) == 0 {
                        // the link register written by a call is live in the callee, not after the call
                        if pos == p && ch.def.kind == DefKind::CallLink {
                            continue;
                        }
                        // successor pseudo-positions inside the excluded interval
                        if ch.excl.iter().any(|(a, _)| pos == *a) {
                            continue;
                        }
                        bad = Some((pos, false));
                        break;
                    }
                }
                stats.chains_checked += 1;
                ch.checked = q;
                if let Some((pos, is_in)) = bad {
                    let node = &gv.nodes[trace[pos]];
                    let sig = format!("C02|dyn|{}|{}|{}|def:{:?}", reader, reg_class(r), if is_in { "live_in" } else { "live_out" }, ch.def.kind);
                    if reported.insert(sig.clone()) {
                        acc.violation(
                            sig,
                            format!(
                                "{} is read by `{}` (line {}) but is not in {} of `{}` (line {}) on the executed path from its definition",
                                ABI[r as usize], gv.nodes[first].render, gv.nodes[first].line + 1,
                                if is_in { "live_in" } else { "live_out" }, node.render, node.line + 1
                            ),
                            program(),
                        );
                    }
                }
                if ch.def.kind == DefKind::Ins && ch.def.ins != usize::MAX {
                    read_values[ch.def.ins] = true;
                }
                // arguments: the activation reads an argument register that still holds the caller's value
                if is_arg(r) && m.frames.len() > 0 {
                    let d = depth_before - 1;
                    if d > 0 && ch.def.pos < frame_entry_pos[d] {
                        if let Some(fi) = frame_func[d] {
                            if gv.funcs[fi].arguments & (1 << r) == 0 {
                                let sig = format!("C02|arguments-missing|{}", reg_class(r));
                                if reported.insert(sig.clone()) {
                                    acc.violation(sig, format!("function {:?} reads {} before writing it, but it is not among its inferred arguments", gv.funcs[fi].labels, ABI[r as usize]), program());
                                }
                            }
                        }
                    }
                    if let Some(fi) = ch.from_callee {
                        if gv.funcs[fi].returns & (1 << r) == 0 {
                            let sig = format!("C02|returns-missing|{}", reg_class(r));
                            if reported.insert(sig.clone()) {
                                acc.violation(sig, format!("the caller reads {} after a call to {:?}, but it is not among the inferred return registers", ABI[r as usize], gv.funcs[fi].labels), program());
                            }
                        }
                    }
                }
            }
            // writes and call / return bookkeeping
            match &ev.kind {
                Kind::Call { target, label } => {
                    let fe = j.entry_of.get(*target).copied().flatten();
                    let entry_pos = trace.len();
                    if let Some(fe) = fe {
                        trace.push(fe);
                        tflag.push(1);
                    } else {
                        // the callee has no entry pseudo-node (the label is not a known function):
                        // use a position that carries no requirement
                        trace.push(j.node_of[*target][0]);
                        tflag.push(1);
                    }
                    let mut regs = Vec::new();
                    for r in 1..32u8 {
                        if !is_arg(r) {
                            regs.push((r, chains[r as usize].clone()));
                            let kind = if r == RA { DefKind::CallLink } else { DefKind::Entry };
                            let pos = if r == RA { pos_of_this } else { entry_pos };
                            chains[r as usize] = Chain { def: Def { pos, kind, ins: usize::MAX }, checked: pos, excl: vec![], from_callee: None };
                        } else {
                            chains[r as usize].from_callee = None;
                        }
                    }
                    let func = gv.func_by_label.get(label).copied();
                    saved_stack.push(SavedChains { regs, call_pos: pos_of_this, call_ins: idx, func });
                    frame_entry_pos.push(entry_pos);
                    frame_func.push(func);
                }
                Kind::Ret { .. } => {
                    if let Some(sv) = saved_stack.pop() {
                        frame_entry_pos.pop();
                        frame_func.pop();
                        let ret_pos = pos_of_this;
                        for (r, mut ch) in sv.regs {
                            let cur = &chains[r as usize];
                            if is_saved(r) || r == SP || r == 3 || r == 4 {
                                // restored by the callee: the caller's chain continues, the callee's
                                // activation is skipped
                                ch.excl.push((sv.call_pos, ret_pos));
                                ch.from_callee = None;
                                chains[r as usize] = ch;
                            } else if r == RA {
                                // ra was written by the call instruction itself
                                chains[r as usize] = Chain {
                                    def: Def { pos: sv.call_pos, kind: DefKind::CallLink, ins: sv.call_ins },
                                    checked: ret_pos,
                                    excl: vec![(sv.call_pos, ret_pos)],
                                    from_callee: None,
                                };
                                // (live_out of the call node itself is not required: CallLink)
                            } else {
                                // temporaries: the callee's own definition flows back; otherwise clobbered
                                if cur.def.pos > sv.call_pos && cur.def.kind != DefKind::Entry {
                                    // keep
                                } else {
                                    chains[r as usize] = Chain { def: Def { pos: ret_pos, kind: DefKind::Clobber, ins: usize::MAX }, checked: ret_pos, excl: vec![], from_callee: None };
                                }
                            }
                        }
                        for a in ARGS {
                            let cur = &mut chains[a as usize];
                            if cur.def.pos > sv.call_pos {
                                cur.from_callee = sv.func;
                            } else {
                                *cur = Chain { def: Def { pos: ret_pos, kind: DefKind::Clobber, ins: usize::MAX }, checked: ret_pos, excl: vec![], from_callee: None };
                            }
                        }
                    }
                }
                Kind::Ecall { known: true, exit: false, .. } => {
                    for r in TEMPS.iter().chain(ARGS.iter()) {
                        chains[*r as usize] = Chain { def: Def { pos: pos_of_this, kind: DefKind::Clobber, ins: usize::MAX }, checked: pos_of_this, excl: vec![], from_callee: None };
                    }
                    for (r, _) in &ev.extra_writes {
                        chains[*r as usize] = Chain { def: Def { pos: pos_of_this, kind: DefKind::EcallResult, ins: idx }, checked: pos_of_this, excl: vec![], from_callee: None };
                    }
                }
                _ => {
                    if let Some((r, _)) = ev.write {
                        chains[r as usize] = Chain { def: Def { pos: pos_of_this + usize::from(last != first), kind: DefKind::Ins, ins: idx }, checked: pos_of_this, excl: vec![], from_callee: None };
                    }
                }
            }
        }

        // ================= C03: executed transfers are edges =================
        if which == Which::C03 {
            match &ev.kind {
                Kind::Call { .. } => pending_calls.push(idx),
                Kind::Ret { matched } => {
                    // (a return that does not go back behind its call - the saved return address was overwritten
                    // through a wild stack pointer - is an indirect jump to anywhere: outside the programs C03
                    // quantifies over; the rest of this execution is not judged)
                    if !*matched {
                        stats.contributed = false;
                        break;
                    }
                    if let (Some(call_idx), Some(next)) = (pending_calls.pop(), ev.next) {
                        check_edge(j, c, call_idx, next, "return-from-call", acc, &mut stats, &mut reported, seed);
                    }
                }
                Kind::Ecall { exit: true, .. } => {}
                _ => {
                    if let Some(next) = ev.next {
                        if next < flat.ins.len() {
                            let tk = match &ev.kind {
                                Kind::Branch { taken: true } => "taken-branch",
                                Kind::Branch { taken: false } => "untaken-branch",
                                Kind::Jump => "jump",
                                Kind::Ecall { .. } => "after-ecall",
                                _ => "fall-through",
                            };
                            check_edge(j, c, idx, next, tk, acc, &mut stats, &mut reported, seed);
                        }
                    }
                }
            }
        }

        // ================= C01: bookkeeping and claims after the instruction =================
        if which == Which::C01 {
            if let Some((a, bytes, _)) = ev.mem_write {
                if let Ins::Store { rs2, .. } = &ins {
                    for k in 0..bytes {
                        slot_store.insert(a.wrapping_add(k), SlotStore { step: ev.step, bytes, src: *rs2 });
                    }
                }
            }
            if let Some((r, _)) = ev.write {
                reg_def_step[r as usize] = ev.step;
                reg_def_ins[r as usize] = idx;
            }
            for (r, _) in &ev.extra_writes {
                reg_def_step[*r as usize] = ev.step;
                reg_def_ins[*r as usize] = idx;
            }
            match &ev.kind {
                Kind::Ecall { exit: false, .. } => last_ecall_step = ev.step,
                Kind::Call { .. } => {
                    call_nodes.push((last, depth_before));
                    // remember how far down the stack grew while each stored byte was "asleep"
                    let sp = m.x[SP as usize];
                    for (a, _) in slot_store.iter() {
                        if *a < sp {
                            min_sp_since.insert(*a, sp);
                        }
                    }
                }
                _ => {}
            }
            if contributing && ev.stop.is_none() && !stats.violated {
                match &ev.kind {
                    Kind::Normal | Kind::Branch { .. } | Kind::Jump | Kind::Ecall { .. } => {
                        check_claims(j, c, &gv.nodes[last], false, &m, &frame_entry_x, idx, &ins, acc, &mut stats,
                            &slot_store, &reg_def_step, &reg_def_ins, last_ecall_step, &min_sp_since, &mut reported, seed);
                    }
                    Kind::Ret { .. } => {
                        if let Some((call_node, _)) = call_nodes.pop() {
                            let fx = m.frame().entry_x;
                            let call_ins = Ins::Ecall; // only used for naming
                            let _ = call_ins;
                            check_claims(j, c, &gv.nodes[call_node], false, &m, &fx, idx, &Ins::call("callee"), acc, &mut stats,
                                &slot_store, &reg_def_step, &reg_def_ins, last_ecall_step, &min_sp_since, &mut reported, seed);
                        }
                    }
                    _ => {}
                }
            }
        }

        if let Some(s) = ev.stop {
            stats.stop = s;
            break;
        }
    }

    // dead-assignment warnings on values that were read
    if which == Which::C02 {
        for d in j.diags.iter().filter(|d| d.code == "dead-assignment") {
            for (k, was_read) in read_values.iter().enumerate() {
                if *was_read && c.printed.ins[k].line == d.span.start.line {
                    let sig = format!("C02|dead-assignment-on-read-value|{}", ins_kind(&flat.ins[k]));
                    if reported.insert(sig.clone()) {
                        acc.violation(sig, format!("`Unused value` is reported on line {} although an execution read the value it assigns", d.span.start.line + 1), program());
                    }
                }
            }
        }
    }
    stats
}

#[allow(clippy::too_many_arguments)]
fn check_edge(j: &Joined, c: &Case, from: usize, to: usize, tk: &str, acc: &mut Acc, stats: &mut DynStats, reported: &mut std::collections::HashSet<String>, seed: u64) {
    let gv = &j.gv;
    let a = *j.node_of[from].last().unwrap();
    let b = j.node_of[to][0];
    stats.transfers_checked += 1;
    let direct = gv.nodes[a].nexts.contains(&b);
    let via_entry = match j.entry_of[to] {
        Some(fe) => gv.nodes[a].nexts.contains(&fe) && gv.nodes[fe].nexts.contains(&b),
        None => false,
    };
    if !(direct || via_entry) {
        let sig = format!("C03|missing-edge|{}->{}|{tk}", gv.nodes[a].kind, gv.nodes[b].kind);
        if reported.insert(sig.clone()) {
            acc.violation(
                sig,
                format!("executed transfer ({tk}) from `{}` (line {}) to `{}` (line {}) is not an edge of the graph", gv.nodes[a].render, gv.nodes[a].line + 1, gv.nodes[b].render, gv.nodes[b].line + 1),
                json!({"program": c.printed.text, "machine_seed": seed}),
            );
        }
    }
}

#[allow(clippy::too_many_arguments)]
fn check_claims(
    j: &Joined, c: &Case, node: &NodeView, is_in: bool, m: &Machine, entry_x: &[u32; 32], idx: usize, ins: &Ins,
    acc: &mut Acc, stats: &mut DynStats, slot_store: &HashMap<u32, SlotStore>, reg_def_step: &[u64; 32],
    reg_def_ins: &[usize; 32], last_ecall_step: u64, min_sp_since: &HashMap<u32, u32>,
    reported: &mut std::collections::HashSet<String>, seed: u64,
) {
    let (regs, mems) = if is_in { (&node.reg_in, &node.mem_in) } else { (&node.reg_out, &node.mem_out) };
    let side = if is_in { "in" } else { "out" };
    for (r, v) in regs {
        let Some(want) = meaning(v, j, entry_x) else { continue };
        stats.claims_checked += 1;
        acc.count(&format!("claims_checked:{}", v.kind()), 1);
        let got = m.x[*r as usize];
        if got != want && !stats.violated {
            stats.violated = true;
            // history class from the dynamic definition of the register
            let di = reg_def_ins[*r as usize];
            let hist = if di == usize::MAX {
                "initial-value".to_string()
            } else {
                let d = &j.flat.ins[di];
                match d {
                    Ins::Load { w, base: SP, .. } => format!("reload:{}", w.mnemonic()),
                    Ins::Ecall => "ecall-result".to_string(),
                    _ if reg_def_step[*r as usize] < last_ecall_step && is_caller_saved(*r) => "stale-across-ecall".to_string(),
                    other => format!("def:{}", ins_kind(other)),
                }
            };
            let sig = format!("C01|{}|reg|{hist}", v.kind());
            if reported.insert(sig.clone()) {
                acc.violation(
                    sig,
                    format!(
                        "{side}-claim {} = {:?} at `{}` (line {}) is false: machine has {:#x}, claim means {:#x}",
                        ABI[*r as usize], v, node.render, node.line + 1, got, want
                    ),
                    json!({"program": c.printed.text, "machine_seed": seed, "instruction_index": idx}),
                );
            }
        }
    }
    for (l, v) in mems {
        let Loc::Stack(o) = l else { continue };
        let Some(want) = meaning(v, j, entry_x) else { continue };
        stats.claims_checked += 1;
        acc.count("claims_checked:stack-slot", 1);
        let addr = entry_x[SP as usize].wrapping_add(*o as u32);
        let got = m.load(addr, 4);
        if got != want && !stats.violated {
            stats.violated = true;
            let st = slot_store.get(&addr);
            let partial = (0..4).any(|k| slot_store.get(&addr.wrapping_add(k)).is_some_and(|s| s.bytes < 4));
            let hist = if partial {
                "partial-width-store".to_string()
            } else if let Some(s) = st {
                if reg_def_step[s.src as usize] > s.step {
                    "src-redefined-after-store".to_string()
                } else if min_sp_since.get(&addr).is_some() {
                    "below-sp-across-call".to_string()
                } else {
                    "other".to_string()
                }
            } else {
                "never-stored".to_string()
            };
            let sig = format!("C01|{}|stack-slot|{hist}", v.kind());
            if reported.insert(sig.clone()) {
                acc.violation(
                    sig,
                    format!(
                        "{side}-claim [entry sp {:+}] = {:?} at `{}` (line {}) is false: memory word is {:#x}, claim means {:#x}",
                        o, v, node.render, node.line + 1, got, want
                    ),
                    json!({"program": c.printed.text, "machine_seed": seed, "instruction_index": idx}),
                );
            }
        }
    }
    let _ = ins;
}
