//! Helpers shared by the program-based monitors.

use crate::ast::*;
use crate::gen::{self, Generated, Inject, Profile};
use crate::machine::{run_conv, Stop};
use crate::print::{print, Printed, Style};
use crate::rng::Rng;
use crate::rva::{self, Analysis, Diag, PanicInfo};

pub const FILE: &str = "main.s";

pub struct Case {
    pub g: Generated,
    pub printed: Printed,
}

pub fn make_case(rng: &mut Rng, prof: &Profile, inject: Option<Inject>, style: Option<&Style>) -> Case {
    let g = gen::generate(rng, prof, inject);
    let st = match style {
        Some(s) => s.clone(),
        None => Style::random(rng),
    };
    let printed = print(&g.prog, &st, rng);
    Case { g, printed }
}

pub fn analyze(text: &str) -> Result<Analysis, PanicInfo> {
    let r = rva::guarded(|| rva::analyze_text(text));
    if let Err(p) = &r {
        if p.class() == "sweep-limit" {
            // keep the input: non-termination is C06/C12's subject, but every monitor that
            // stumbles over it leaves the witness behind
            let dir = std::path::Path::new("/verif/work/diverged");
            let _ = std::fs::create_dir_all(dir);
            let _ = std::fs::write(dir.join(format!("{:016x}.s", crate::rng::hash64(text))), text);
        }
    }
    r
}

/// Run the program a few times under the dynamic convention monitor.
/// Returns (all runs conforming, first breach, executed steps, any run hit the step cap).
pub fn premise_conforming(p: &Program, seed: u64, runs: usize, cap: u64) -> (bool, Option<String>, u64, bool) {
    let flat = p.flatten();
    let mut steps = 0;
    let mut capped = false;
    for k in 0..runs {
        let (stop, conv, s) = run_conv(&flat, seed.wrapping_add(k as u64 * 7919), cap);
        steps += s;
        match stop {
            Stop::Exit(_) => {}
            Stop::StepCap => capped = true,
            Stop::Fault(f) => return (false, Some(format!("fault:{f}")), steps, capped),
        }
        if !conv.ok() {
            return (false, conv.breaches.first().cloned(), steps, capped);
        }
    }
    (true, None, steps, capped)
}

/// Mnemonic-level kind of the instruction printed on `line`, for signatures.
pub fn ins_kind_at(c: &Case, line: usize) -> String {
    match c.printed.line_to_ins.get(&line) {
        Some(k) => {
            let i = c.g.prog.instructions()[*k];
            ins_kind(i)
        }
        None => "no-instruction".to_string(),
    }
}

pub fn ins_kind(i: &Ins) -> String {
    match i {
        Ins::Alu { op, .. } => op.mnemonic().to_string(),
        Ins::AluI { op: AluOp::Add, rs1: 0, .. } => "li".to_string(),
        Ins::AluI { op: AluOp::Add, imm: 0, .. } => "mv".to_string(),
        Ins::AluI { op, .. } => op.imm_mnemonic().unwrap_or("alui").to_string(),
        Ins::Lui { .. } => "lui".into(),
        Ins::La { .. } => "la".into(),
        Ins::Load { w, .. } => w.mnemonic().into(),
        Ins::Store { w, .. } => w.mnemonic().into(),
        Ins::Branch { .. } => "branch".into(),
        Ins::Jal { rd: 1, .. } => "call".into(),
        Ins::Jal { .. } => "jump".into(),
        i if i.is_ret() => "ret".into(),
        Ins::Jalr { .. } => "jalr".into(),
        Ins::Ecall => "ecall".into(),
        Ins::Csrrw { .. } | Ins::Csrrs { .. } | Ins::Csrrwi { .. } => "csr".into(),
    }
}

pub fn diag_brief(d: &Diag) -> String {
    format!(
        "{} `{}` at {}:{}:{}-{} [{}]",
        if d.code.is_empty() { &d.title } else { &d.code },
        d.raw_text,
        d.file,
        d.span.start.line + 1,
        d.span.start.col + 1,
        d.span.end.col + 1,
        d.title
    )
}
