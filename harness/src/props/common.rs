//! Helpers shared by the program-based monitors.

use crate::ast::*;
use crate::gen::{self, Generated, Inject, Profile};
use crate::machine::{run_conv, Stop};
use crate::print::{print, Printed, Style};
use crate::rng::Rng;
use crate::rva::{self, Analysis, Diag, PanicInfo};

pub const FILE: &str = "main.s";

pub struct Case {
    pub g: Generated,
    pub printed: Printed,
}

pub fn make_case(rng: &mut Rng, prof: &Profile, inject: Option<Inject>, style: Option<&Style>) -> Case {
    let g = gen::generate(rng, prof, inject);
    let st = match style {
        Some(s) => s.clone(),
        None => Style::random(rng),
    };
    let printed = print(&g.prog, &st, rng);
    Case { g, printed }
}

pub fn analyze(text: &str) -> Result<Analysis, PanicInfo> {
    let r = rva::guarded(|| rva::analyze_text(text));
    if let Err(p) = &r {
        if p.class() == "sweep-limit" {
            // keep the input: non-termination is C06/C12's subject, but every monitor that
            // stumbles over it leaves the witness behind
            let dir = std::path::Path::new("/verif/work/diverged");
            let _ = std::fs::create_dir_all(dir);
            let _ = std::fs::write(dir.join(format!("{:016x}.s", crate::rng::hash64(text))), text);
        }
    }
    r
}

/// Run the program a few times under the dynamic convention monitor.
/// Returns (all runs conforming, first breach, executed steps, any run hit the step cap).
pub fn premise_conforming(p: &Program, seed: u64, runs: usize, cap: u64) -> (bool, Option<String>, u64, bool) {
    let flat = p.flatten();
    let mut steps = 0;
    let mut capped = false;
    for k in 0..runs {
        let (stop, conv, s) = run_conv(&flat, seed.wrapping_add(k as u64 * 7919), cap);
        steps += s;
        match stop {
            Stop::Exit(_) => {}
            Stop::StepCap => capped = true,
            Stop::Fault(f) => return (false, Some(format!("fault:{f}")), steps, capped),
        }
        if !conv.ok() {
            return (false, conv.breaches.first().cloned(), steps, capped);
        }
    }
    (true, None, steps, capped)
}

/// Mnemonic-level kind of the instruction printed on `line`, for signatures.
pub fn ins_kind_at(c: &Case, line: usize) -> String {
    match c.printed.line_to_ins.get(&line) {
        Some(k) => {
            let i = c.g.prog.instructions()[*k];
            ins_kind(i)
        }
        None => "no-instruction".to_string(),
    }
}

pub fn ins_kind(i: &Ins) -> String {
    match i {
        Ins::Alu { op, .. } => op.mnemonic().to_string(),
        Ins::AluI { op: AluOp::Add, rs1: 0, .. } => "li".to_string(),
        Ins::AluI { op: AluOp::Add, imm: 0, .. } => "mv".to_string(),
        Ins::AluI { op, .. } => op.imm_mnemonic().unwrap_or("alui").to_string(),
        Ins::Lui { .. } => "lui".into(),
        Ins::La { .. } => "la".into(),
        Ins::Load { w, .. } => w.mnemonic().into(),
        Ins::Store { w, .. } => w.mnemonic().into(),
        Ins::Branch { .. } => "branch".into(),
        Ins::Jal { rd: 1, .. } => "call".into(),
        Ins::Jal { .. } => "jump".into(),
        i if i.is_ret() => "ret".into(),
        Ins::Jalr { .. } => "jalr".into(),
        Ins::Ecall => "ecall".into(),
        Ins::Csrrw { .. } | Ins::Csrrs { .. } | Ins::Csrrwi { .. } => "csr".into(),
    }
}

pub fn diag_brief(d: &Diag) -> String {
    format!(
        "{} `{}` at {}:{}:{}-{} [{}]",
        if d.code.is_empty() { &d.title } else { &d.code },
        d.raw_text,
        d.file,
        d.span.start.line + 1,
        d.span.start.col + 1,
        d.span.end.col + 1,
        d.title
    )
}

// ---------------------------------------------------------------------------------------
// Layout-independent identity of diagnostics (C13, C14, C15)
// ---------------------------------------------------------------------------------------

/// (code, instruction index or label, register the diagnostic is about)
pub type DiagKey = (String, String, i32);

const WRITE_CODES: [&str; 4] =
    ["dead-assignment", "save-to-zero", "lost-register-value", "overwrite-callee-saved-register"];
const READ_CODES: [&str; 2] = ["invalid-use-after-call", "invalid-use-before-assignment"];

/// Identify a diagnostic by what it is about rather than by where its text happens to be.
pub fn diag_key(c: &Case, d: &Diag) -> DiagKey {
    let line = d.span.start.line;
    let code = if d.code.is_empty() { d.title.clone() } else { d.code.clone() };
    if d.file != FILE {
        return (code, format!("file:{}", d.file), -1);
    }
    // a label defined on that line, if the diagnostic sits on it
    let on_label = c
        .printed
        .label_defs
        .iter()
        .find(|(_, (l, c0, c1))| *l == line && d.span.start.col <= *c1 + 1 && d.span.end.col >= *c0)
        .map(|(n, _)| n.clone());
    match c.printed.line_to_ins.get(&line) {
        Some(k) if on_label.is_none() || d.span.start.col >= c.printed.ins[*k].mn.0 => {
            let ins = c.g.prog.instructions()[*k];
            let reg: i32 = if WRITE_CODES.contains(&code.as_str()) {
                ins.writes().map_or(-2, i32::from)
            } else if READ_CODES.contains(&code.as_str()) {
                match reg_from_name(d.raw_text.trim()) {
                    Some(r) => i32::from(r),
                    None => {
                        let rs: Vec<Reg> = ins.reads().into_iter().filter(|r| *r != 0).collect();
                        if rs.len() == 1 {
                            i32::from(rs[0])
                        } else {
                            -2
                        }
                    }
                }
            } else {
                -1
            };
            (code, format!("ins:{k}"), reg)
        }
        _ => match on_label {
            Some(l) => (code, format!("label:{l}"), -1),
            None => (code, format!("line:{line}"), -1),
        },
    }
}

pub fn diag_multiset(c: &Case, diags: &[Diag]) -> std::collections::BTreeMap<DiagKey, usize> {
    let mut m = std::collections::BTreeMap::new();
    for d in diags {
        *m.entry(diag_key(c, d)).or_insert(0) += 1;
    }
    m
}

/// First key whose multiplicity differs: (key, count in a, count in b).
pub fn multiset_diff(
    a: &std::collections::BTreeMap<DiagKey, usize>,
    b: &std::collections::BTreeMap<DiagKey, usize>,
) -> Option<(DiagKey, usize, usize)> {
    for (k, n) in a {
        let m = b.get(k).copied().unwrap_or(0);
        if m != *n {
            return Some((k.clone(), *n, m));
        }
    }
    for (k, m) in b {
        if !a.contains_key(k) {
            return Some((k.clone(), 0, *m));
        }
    }
    None
}
