//! Plain-data view of a finished `Cfg`, built through public getters only, with node identity
//! taken from the position in `Cfg::nodes()` / `Rc` pointers (never from hashing nodes).

use riscv_analysis::analysis::{AvailableValue, HasGenKillInfo, MemoryLocation};
use riscv_analysis::cfg::{Cfg, CfgNode, RegisterSet};
use riscv_analysis::parser::{InstructionProperties, ParserNode, Register};
use riscv_analysis::passes::DiagnosticLocation;
use std::collections::{BTreeMap, BTreeSet, HashMap};
use std::rc::Rc;

pub fn regset_bits(s: &RegisterSet) -> u32 {
    let mut m = 0u32;
    for r in s {
        m |= 1 << r.to_num();
    }
    m
}

#[derive(Clone, Debug, PartialEq, Eq, PartialOrd, Ord)]
pub enum Val {
    Const(i32),
    Addr(String),
    /// original value of register q at function entry plus k
    Orig(u8, i32),
    /// anything else, rendered
    Other(String),
}

impl Val {
    pub fn of(v: &AvailableValue) -> Val {
        match v {
            AvailableValue::Constant(c) => Val::Const(*c),
            AvailableValue::Address(l) => Val::Addr(l.get().as_str().to_string()),
            AvailableValue::OriginalRegisterWithScalar(r, k) => Val::Orig(r.to_num(), *k),
            other => Val::Other(format!("{other}")),
        }
    }
    pub fn is_claim(&self) -> bool {
        !matches!(self, Val::Other(_))
    }
    pub fn kind(&self) -> &'static str {
        match self {
            Val::Const(_) => "constant",
            Val::Addr(_) => "address",
            Val::Orig(..) => "entry-plus-const",
            Val::Other(_) => "other",
        }
    }
}

#[derive(Clone, Debug, PartialEq, Eq, PartialOrd, Ord)]
pub enum Loc {
    Stack(i32),
    Other(String),
}

#[derive(Clone, Debug)]
pub struct NodeView {
    pub idx: usize,
    /// "ProgramEntry", "FuncEntry", "Arith", ...
    pub kind: &'static str,
    pub render: String,
    pub line: usize,
    pub file: uuid::Uuid,
    pub labels: BTreeSet<String>,
    pub nexts: BTreeSet<usize>,
    pub prevs: BTreeSet<usize>,
    pub reg_in: BTreeMap<u8, Val>,
    pub reg_out: BTreeMap<u8, Val>,
    pub mem_in: BTreeMap<Loc, Val>,
    pub mem_out: BTreeMap<Loc, Val>,
    pub live_in: u32,
    pub live_out: u32,
    pub gen: u32,
    pub kill: u32,
    /// indexes (into `GraphView::funcs`) of the owning functions
    pub funcs: BTreeSet<usize>,
    pub is_return: bool,
    pub is_ecall: bool,
    pub known_ecall: Option<i32>,
    pub is_func_entry: bool,
    pub is_program_entry: bool,
    pub calls_to: Option<String>,
    pub jumps_to: Option<String>,
    /// label of a `jal x0` / branch (what the tool calls "some jump to label")
    pub jump_label: Option<String>,
    pub is_uncond_jump: bool,
    pub writes: Option<u8>,
    pub in_text: bool,
    /// for ecalls with a known number: (argument registers, result registers)
    pub ecall_sig: Option<(u32, u32)>,
}

#[derive(Clone, Debug)]
pub struct FuncView {
    pub labels: BTreeSet<String>,
    pub entry: usize,
    pub exit: usize,
    pub nodes: BTreeSet<usize>,
    pub arguments: u32,
    pub returns: u32,
}

#[derive(Clone, Debug)]
pub struct GraphView {
    pub nodes: Vec<NodeView>,
    pub funcs: Vec<FuncView>,
    /// function label -> index into funcs
    pub func_by_label: BTreeMap<String, usize>,
}

fn node_kind(n: &ParserNode) -> &'static str {
    match n {
        ParserNode::ProgramEntry(_) => "ProgramEntry",
        ParserNode::FuncEntry(_) => "FuncEntry",
        ParserNode::Arith(_) => "Arith",
        ParserNode::IArith(_) => "IArith",
        ParserNode::Label(_) => "Label",
        ParserNode::JumpLink(_) => "JumpLink",
        ParserNode::JumpLinkR(_) => "JumpLinkR",
        ParserNode::Basic(_) => "Basic",
        ParserNode::Directive(_) => "Directive",
        ParserNode::Branch(_) => "Branch",
        ParserNode::Store(_) => "Store",
        ParserNode::Load(_) => "Load",
        ParserNode::LoadAddr(_) => "LoadAddr",
        ParserNode::Csr(_) => "Csr",
        ParserNode::CsrI(_) => "CsrI",
    }
}

pub fn reg_map(m: &riscv_analysis::cfg::AvailableValueMap<Register>) -> BTreeMap<u8, Val> {
    m.iter().map(|(r, v)| (r.to_num(), Val::of(v))).collect()
}

pub fn mem_map(m: &riscv_analysis::cfg::AvailableValueMap<MemoryLocation>) -> BTreeMap<Loc, Val> {
    m.iter()
        .map(|(l, v)| {
            let loc = match l {
                MemoryLocation::StackOffset(o) => Loc::Stack(*o),
                other => Loc::Other(format!("{other}")),
            };
            (loc, Val::of(v))
        })
        .collect()
}

impl GraphView {
    pub fn of(cfg: &Cfg) -> GraphView {
        let rcs: &Vec<Rc<CfgNode>> = cfg.nodes();
        let index: HashMap<*const CfgNode, usize> =
            rcs.iter().enumerate().map(|(i, n)| (Rc::as_ptr(n), i)).collect();
        let idx_of = |n: &Rc<CfgNode>| -> usize { index.get(&Rc::as_ptr(n)).copied().unwrap_or(usize::MAX) };
        // functions, identified by pointer; order by entry index for stability
        let fmap = cfg.functions();
        let mut fptrs: Vec<(usize, *const riscv_analysis::cfg::Function, Rc<riscv_analysis::cfg::Function>)> = Vec::new();
        for f in fmap.values() {
            let p = Rc::as_ptr(f);
            if !fptrs.iter().any(|(_, q, _)| *q == p) {
                fptrs.push((idx_of(&f.entry()), p, Rc::clone(f)));
            }
        }
        fptrs.sort_by_key(|(e, _, _)| *e);
        let findex: HashMap<*const riscv_analysis::cfg::Function, usize> =
            fptrs.iter().enumerate().map(|(i, (_, p, _))| (*p, i)).collect();
        let mut funcs = Vec::new();
        for (_, _, f) in &fptrs {
            funcs.push(FuncView {
                labels: f.labels().iter().map(|l| l.get().as_str().to_string()).collect(),
                entry: idx_of(&f.entry()),
                exit: idx_of(&f.exit()),
                nodes: f.nodes().iter().map(&idx_of).collect(),
                arguments: regset_bits(&f.arguments()),
                returns: regset_bits(&f.returns()),
            });
        }
        let mut func_by_label = BTreeMap::new();
        for (l, f) in &fmap {
            if let Some(i) = findex.get(&Rc::as_ptr(f)) {
                func_by_label.insert(l.get().as_str().to_string(), *i);
            }
        }
        let mut nodes = Vec::new();
        for (i, n) in rcs.iter().enumerate() {
            let pn = n.node();
            nodes.push(NodeView {
                idx: i,
                kind: node_kind(&pn),
                render: format!("{pn}"),
                line: pn.range().start().zero_idx_line(),
                file: pn.file(),
                labels: n.labels().iter().map(|l| l.get().as_str().to_string()).collect(),
                nexts: n.nexts().iter().map(&idx_of).collect(),
                prevs: n.prevs().iter().map(&idx_of).collect(),
                reg_in: reg_map(&n.reg_values_in()),
                reg_out: reg_map(&n.reg_values_out()),
                mem_in: mem_map(&n.memory_values_in()),
                mem_out: mem_map(&n.memory_values_out()),
                live_in: regset_bits(&n.live_in()),
                live_out: regset_bits(&n.live_out()),
                gen: regset_bits(&pn.gen_reg()),
                kill: regset_bits(&pn.kill_reg()),
                funcs: n.functions().iter().filter_map(|f| findex.get(&Rc::as_ptr(f)).copied()).collect(),
                is_return: pn.is_return(),
                is_ecall: pn.is_ecall(),
                known_ecall: n.known_ecall(),
                is_func_entry: pn.is_function_entry(),
                is_program_entry: pn.is_program_entry(),
                calls_to: pn.calls_to().map(|l| l.get().as_str().to_string()),
                jumps_to: pn.jumps_to().map(|l| l.get().as_str().to_string()),
                jump_label: pn.is_some_jump_to_label().map(|l| l.get().as_str().to_string()),
                is_uncond_jump: pn.is_unconditional_jump(),
                writes: pn.writes_to().map(|r| r.get().to_num()),
                in_text: n.segment() == riscv_analysis::cfg::Segment::Text,
                ecall_sig: n.known_ecall_signature().map(|(a, b)| (regset_bits(&a), regset_bits(&b))),
            });
        }
        GraphView { nodes, funcs, func_by_label }
    }

    /// Canonical snapshot of all facts (C12, C19): one string per node.
    pub fn snapshot(&self) -> Vec<String> {
        self.nodes
            .iter()
            .map(|n| {
                format!(
                    "{}|{}|n{:?}|p{:?}|ri{:?}|ro{:?}|mi{:?}|mo{:?}|li{:08x}|lo{:08x}|f{:?}",
                    n.idx, n.render, n.nexts, n.prevs, n.reg_in, n.reg_out, n.mem_in, n.mem_out, n.live_in, n.live_out,
                    n.funcs.iter().map(|f| (self.funcs[*f].entry, self.funcs[*f].exit)).collect::<Vec<_>>()
                )
            })
            .collect()
    }
}
