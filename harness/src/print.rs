//! AST -> text, under a random surface style, with exact column bookkeeping
//! (char columns, inclusive ends) for every mnemonic and operand printed.

use crate::ast::*;
use crate::rng::Rng;
use std::collections::HashMap;

#[derive(Clone, Copy, Debug, PartialEq, Eq, Hash)]
pub enum Role {
    Rd,
    Rs1,
    Rs2,
    Imm,
    Label,
    Base,
    Csr,
}

#[derive(Clone, Debug, PartialEq, Eq)]
pub enum Op {
    R(Reg, Role),
    I(i32),
    L(String),
    /// off(base)
    M(i32, Reg),
    C(u32),
}

#[derive(Clone, Debug, PartialEq, Eq)]
pub struct Spelling {
    pub mn: &'static str,
    pub ops: Vec<Op>,
    /// human name of the rewrite relative to the base form ("base" for the first)
    pub name: &'static str,
}

fn sp(mn: &'static str, ops: Vec<Op>, name: &'static str) -> Spelling {
    Spelling { mn, ops, name }
}

/// All spellings of an instruction that the RISC-V assembler manual defines as equivalent.
/// The first entry is the base-ISA form.
pub fn spellings(i: &Ins) -> Vec<Spelling> {
    use Op::{C, I, L, M, R};
    use Role::{Base, Rd, Rs1, Rs2};
    let mut v = Vec::new();
    match i {
        Ins::Alu { op, rd, rs1, rs2 } => {
            v.push(sp(op.mnemonic(), vec![R(*rd, Rd), R(*rs1, Rs1), R(*rs2, Rs2)], "base"));
            match op {
                AluOp::Sub if *rs1 == ZERO => v.push(sp("neg", vec![R(*rd, Rd), R(*rs2, Rs2)], "neg")),
                AluOp::Sltu if *rs1 == ZERO => v.push(sp("snez", vec![R(*rd, Rd), R(*rs2, Rs2)], "snez")),
                AluOp::Slt if *rs2 == ZERO && *rs1 != ZERO => {
                    v.push(sp("sltz", vec![R(*rd, Rd), R(*rs1, Rs1)], "sltz"))
                }
                AluOp::Slt if *rs1 == ZERO && *rs2 != ZERO => {
                    v.push(sp("sgtz", vec![R(*rd, Rd), R(*rs2, Rs2)], "sgtz"))
                }
                _ => {}
            }
        }
        Ins::AluI { op, rd, rs1, imm } => {
            v.push(sp(
                op.imm_mnemonic().expect("immediate form"),
                vec![R(*rd, Rd), R(*rs1, Rs1), I(*imm)],
                "base",
            ));
            match op {
                AluOp::Add if *rs1 == ZERO && *rd == ZERO && *imm == 0 => v.push(sp("nop", vec![], "nop")),
                AluOp::Add if *rs1 == ZERO => v.push(sp("li", vec![R(*rd, Rd), I(*imm)], "li")),
                AluOp::Add if *imm == 0 => v.push(sp("mv", vec![R(*rd, Rd), R(*rs1, Rs1)], "mv")),
                AluOp::Xor if *imm == -1 => v.push(sp("not", vec![R(*rd, Rd), R(*rs1, Rs1)], "not")),
                AluOp::Sltu if *imm == 1 => v.push(sp("seqz", vec![R(*rd, Rd), R(*rs1, Rs1)], "seqz")),
                _ => {}
            }
        }
        Ins::Lui { rd, imm } => v.push(sp("lui", vec![R(*rd, Rd), I(*imm)], "base")),
        Ins::La { rd, label } => v.push(sp("la", vec![R(*rd, Rd), L(label.clone())], "base")),
        Ins::Load { w, rd, off, base } => {
            v.push(sp(w.mnemonic(), vec![R(*rd, Rd), M(*off, *base)], "base"));
        }
        Ins::Store { w, rs2, off, base } => {
            v.push(sp(w.mnemonic(), vec![R(*rs2, Rs2), M(*off, *base)], "base"));
        }
        Ins::Branch { c, rs1, rs2, label } => {
            v.push(sp(c.mnemonic(), vec![R(*rs1, Rs1), R(*rs2, Rs2), L(label.clone())], "base"));
            let l = || L(label.clone());
            // swapped-operand pseudos
            match c {
                Cond::Lt => v.push(sp("bgt", vec![R(*rs2, Rs2), R(*rs1, Rs1), l()], "bgt")),
                Cond::Ge => v.push(sp("ble", vec![R(*rs2, Rs2), R(*rs1, Rs1), l()], "ble")),
                Cond::Ltu => v.push(sp("bgtu", vec![R(*rs2, Rs2), R(*rs1, Rs1), l()], "bgtu")),
                Cond::Geu => v.push(sp("bleu", vec![R(*rs2, Rs2), R(*rs1, Rs1), l()], "bleu")),
                _ => {}
            }
            // compare-with-zero pseudos
            if *rs2 == ZERO && *rs1 != ZERO {
                match c {
                    Cond::Eq => v.push(sp("beqz", vec![R(*rs1, Rs1), l()], "beqz")),
                    Cond::Ne => v.push(sp("bnez", vec![R(*rs1, Rs1), l()], "bnez")),
                    Cond::Lt => v.push(sp("bltz", vec![R(*rs1, Rs1), l()], "bltz")),
                    Cond::Ge => v.push(sp("bgez", vec![R(*rs1, Rs1), l()], "bgez")),
                    _ => {}
                }
            }
            if *rs1 == ZERO && *rs2 != ZERO {
                match c {
                    Cond::Ge => v.push(sp("blez", vec![R(*rs2, Rs2), l()], "blez")),
                    Cond::Lt => v.push(sp("bgtz", vec![R(*rs2, Rs2), l()], "bgtz")),
                    _ => {}
                }
            }
        }
        Ins::Jal { rd, label } => {
            v.push(sp("jal", vec![R(*rd, Rd), L(label.clone())], "base"));
            if *rd == ZERO {
                v.push(sp("j", vec![L(label.clone())], "j"));
            }
            if *rd == RA {
                v.push(sp("jal", vec![L(label.clone())], "jal-implicit-ra"));
                v.push(sp("call", vec![L(label.clone())], "call"));
            }
        }
        Ins::Jalr { rd, rs1, imm } => {
            v.push(sp("jalr", vec![R(*rd, Rd), R(*rs1, Rs1), I(*imm)], "base"));
            v.push(sp("jalr", vec![R(*rd, Rd), M(*imm, *rs1)], "jalr-mem-form"));
            if *rd == RA && *imm == 0 {
                v.push(sp("jalr", vec![R(*rs1, Rs1)], "jalr-one-operand"));
            }
            if *rd == ZERO && *imm == 0 {
                v.push(sp("jr", vec![R(*rs1, Rs1)], "jr"));
                if *rs1 == RA {
                    v.push(sp("ret", vec![], "ret"));
                }
            }
        }
        Ins::Ecall => v.push(sp("ecall", vec![], "base")),
        Ins::Csrrw { rd, csr, rs1 } => {
            v.push(sp("csrrw", vec![R(*rd, Rd), C(*csr), R(*rs1, Rs1)], "base"));
            if *rd == ZERO {
                // RARS operand order (register first), which is what the tool targets
                v.push(sp("csrw", vec![R(*rs1, Rs1), C(*csr)], "csrw"));
            }
        }
        Ins::Csrrs { rd, csr, rs1 } => {
            v.push(sp("csrrs", vec![R(*rd, Rd), C(*csr), R(*rs1, Rs1)], "base"));
            if *rs1 == ZERO {
                v.push(sp("csrr", vec![R(*rd, Rd), C(*csr)], "csrr"));
            }
        }
        Ins::Csrrwi { rd, csr, imm } => {
            v.push(sp("csrrwi", vec![R(*rd, Rd), C(*csr), I(*imm)], "base"));
            if *rd == ZERO {
                v.push(sp("csrwi", vec![C(*csr), I(*imm)], "csrwi"));
            }
        }
    }
    let _ = Base;
    v
}

#[derive(Clone, Copy, Debug, PartialEq, Eq)]
pub enum Radix {
    Dec,
    Hex,
    Bin,
    Char,
}

pub fn fmt_imm(v: i32, radix: Radix, upper: bool) -> String {
    match radix {
        Radix::Dec => format!("{v}"),
        Radix::Char if (32..=126).contains(&v) && v != 39 && v != 92 && v != 34 => {
            format!("'{}'", char::from(v as u8))
        }
        // escaped character literals
        Radix::Char if v == 10 => "'\\n'".to_string(),
        Radix::Char if v == 9 => "'\\t'".to_string(),
        Radix::Char if v == 0 => "'\\0'".to_string(),
        Radix::Char if v == 92 => "'\\\\'".to_string(),
        Radix::Char if v == 39 => "'\\''".to_string(),
        Radix::Bin if v >= 0 => {
            if upper {
                format!("0B{:b}", v)
            } else {
                format!("0b{:b}", v)
            }
        }
        Radix::Hex | Radix::Dec | Radix::Bin | Radix::Char => {
            // two's-complement hex spelling for negatives; magnitude for non-negatives
            if v < 0 && ((v as u32) % 3 == 0 || (v == i32::MIN && upper)) {
                if upper {
                    format!("-0X{:X}", -(i64::from(v)))
                } else {
                    format!("-0x{:x}", -(i64::from(v)))
                }
            } else if upper {
                format!("0X{:X}", v as u32)
            } else {
                format!("0x{:x}", v as u32)
            }
        }
    }
}

pub fn csr_name(n: u32) -> Option<&'static str> {
    Some(match n {
        0x000 => "ustatus",
        0x004 => "uie",
        0x005 => "utvec",
        0x040 => "uscratch",
        0x041 => "uepc",
        0x042 => "ucause",
        0x043 => "utval",
        0x044 => "uip",
        _ => return None,
    })
}

#[derive(Clone, Debug)]
pub struct Style {
    pub p_pseudo: f64,
    pub p_numeric: f64,
    pub p_upper: f64,
    pub p_hex: f64,
    pub p_bin: f64,
    pub p_char: f64,
    pub p_omit_zero: f64,
    pub p_label_inline: f64,
    pub p_trailing_comment: f64,
    pub p_blank_line: f64,
    pub p_comment_line: f64,
    /// 0 = "a, b", 1 = "a,b", 2 = "a b", 3 = "a , b", 4 = "a,,b", 5 = "a\tb"; 9 = mixed per line
    pub sep: u8,
    /// 0 = four spaces, 1 = tab, 2 = none, 3 = two spaces, 9 = mixed per line
    pub indent: u8,
    pub allow_fp: bool,
    /// first line is a comment (keeps programs away from the first-line / leading-blank
    /// position defects, which are C09's subject)
    pub header: bool,
    pub trailing_newline: bool,
}

impl Style {
    pub fn plain() -> Style {
        Style {
            p_pseudo: 1.0,
            p_numeric: 0.0,
            p_upper: 0.0,
            p_hex: 0.0,
            p_bin: 0.0,
            p_char: 0.0,
            p_omit_zero: 0.0,
            p_label_inline: 0.0,
            p_trailing_comment: 0.0,
            p_blank_line: 0.0,
            p_comment_line: 0.0,
            sep: 0,
            indent: 0,
            allow_fp: false,
            header: true,
            trailing_newline: true,
        }
    }
    /// Base-ISA spellings only, otherwise plain.
    pub fn base() -> Style {
        Style { p_pseudo: 0.0, ..Style::plain() }
    }
    pub fn random(rng: &mut Rng) -> Style {
        let f = |rng: &mut Rng| match rng.below(4) {
            0 => 0.0,
            1 => 1.0,
            _ => rng.range(1, 9) as f64 / 10.0,
        };
        Style {
            p_pseudo: f(rng),
            p_numeric: f(rng),
            p_upper: if rng.chance(0.5) { 0.0 } else { f(rng) },
            p_hex: rng.range(0, 5) as f64 / 10.0,
            p_bin: rng.range(0, 2) as f64 / 10.0,
            p_char: rng.range(0, 2) as f64 / 10.0,
            p_omit_zero: f(rng),
            p_label_inline: f(rng),
            p_trailing_comment: rng.range(0, 4) as f64 / 10.0,
            p_blank_line: rng.range(0, 3) as f64 / 10.0,
            p_comment_line: rng.range(0, 2) as f64 / 10.0,
            sep: *rng.pick(&[0, 0, 1, 2, 3, 4, 5, 9, 9]),
            indent: *rng.pick(&[0, 0, 1, 2, 3, 9]),
            allow_fp: rng.chance(0.5),
            header: true,
            trailing_newline: rng.chance(0.8),
        }
    }
}

#[derive(Clone, Debug)]
pub struct OpPrint {
    pub role: Role,
    pub c0: usize,
    pub c1: usize,
    pub text: String,
}

#[derive(Clone, Debug)]
pub struct InsPrint {
    /// 0-based line in the printed text
    pub line: usize,
    pub mn: (usize, usize),
    pub mn_text: String,
    pub ops: Vec<OpPrint>,
    /// first char of the mnemonic .. last char of the last operand (inclusive)
    pub full: (usize, usize),
    pub spelling: &'static str,
}

impl InsPrint {
    pub fn op(&self, role: Role) -> Option<&OpPrint> {
        self.ops.iter().find(|o| o.role == role)
    }
}

#[derive(Clone, Debug)]
pub struct Printed {
    pub text: String,
    /// per instruction (in program order)
    pub ins: Vec<InsPrint>,
    /// printed line -> instruction index
    pub line_to_ins: HashMap<usize, usize>,
    /// printed line of each `Program::lines` entry
    pub line_of_src: Vec<usize>,
    /// label name -> (line, c0, c1) of its definition (name without ':')
    pub label_defs: HashMap<String, (usize, usize, usize)>,
}

fn reg_name(r: Reg, st: &Style, rng: &mut Rng) -> String {
    if rng.chance(st.p_numeric) {
        format!("x{r}")
    } else if r == 8 && st.allow_fp && rng.chance(0.3) {
        "fp".to_string()
    } else {
        ABI[r as usize].to_string()
    }
}

fn pick_radix(v: i32, st: &Style, rng: &mut Rng) -> Radix {
    if rng.chance(st.p_char) && ((32..=126).contains(&v) || v == 10 || v == 9 || v == 0) {
        Radix::Char
    } else if rng.chance(st.p_hex) {
        Radix::Hex
    } else if rng.chance(st.p_bin) && v >= 0 {
        Radix::Bin
    } else {
        Radix::Dec
    }
}

struct LineBuf {
    s: String,
    n: usize,
}

impl LineBuf {
    fn new() -> Self {
        LineBuf { s: String::new(), n: 0 }
    }
    fn push(&mut self, t: &str) -> (usize, usize) {
        let c0 = self.n;
        self.s.push_str(t);
        self.n += t.chars().count();
        (c0, self.n.saturating_sub(1))
    }
}

fn mixed_case(mn: &str, rng: &mut Rng) -> String {
    match rng.below(3) {
        0 => mn.to_uppercase(),
        1 => {
            let mut cs: Vec<char> = mn.chars().collect();
            if let Some(c) = cs.first_mut() {
                *c = c.to_ascii_uppercase();
            }
            cs.into_iter().collect()
        }
        _ => mn
            .chars()
            .enumerate()
            .map(|(i, c)| if i % 2 == 1 { c.to_ascii_uppercase() } else { c })
            .collect(),
    }
}

const COMMENTS: [&str; 8] = [
    "# setup",
    "# ---",
    "#",
    "# add x1, x2, x3",
    "# TODO: check",
    "#\tkeep",
    "# li a7, 10",
    "# caf\u{e9} \u{2713}",
];

/// Print one instruction into `lb`, choosing a spelling by style.
fn print_ins(i: &Ins, st: &Style, rng: &mut Rng, lb: &mut LineBuf, line: usize) -> InsPrint {
    let sps = spellings(i);
    let spelling = if sps.len() > 1 && rng.chance(st.p_pseudo) {
        sps[1 + rng.below(sps.len() - 1)].clone()
    } else {
        sps[0].clone()
    };
    let upper = rng.chance(st.p_upper);
    let mn_text = if upper { mixed_case(spelling.mn, rng) } else { spelling.mn.to_string() };
    let mn = lb.push(&mn_text);
    let sep_kind = if st.sep == 9 { rng.below(6) as u8 } else { st.sep };
    let sep = match sep_kind {
        0 => ", ",
        1 => ",",
        2 => " ",
        3 => " , ",
        4 => ",,",
        _ => "\t",
    };
    let mut ops = Vec::new();
    let mut last = mn.1;
    for (k, op) in spelling.ops.iter().enumerate() {
        if k == 0 {
            lb.push(if sep_kind == 5 { "\t" } else { " " });
        } else {
            lb.push(sep);
        }
        match op {
            Op::R(r, role) => {
                let t = reg_name(*r, st, rng);
                let (c0, c1) = lb.push(&t);
                ops.push(OpPrint { role: *role, c0, c1, text: t });
                last = c1;
            }
            Op::I(v) => {
                let t = fmt_imm(*v, pick_radix(*v, st, rng), upper && rng.chance(0.5));
                let (c0, c1) = lb.push(&t);
                ops.push(OpPrint { role: Role::Imm, c0, c1, text: t });
                last = c1;
            }
            Op::L(l) => {
                let (c0, c1) = lb.push(l);
                ops.push(OpPrint { role: Role::Label, c0, c1, text: l.clone() });
                last = c1;
            }
            Op::C(n) => {
                let t = match csr_name(*n) {
                    Some(name) if rng.chance(0.7) => name.to_string(),
                    // (a CSR is named or numbered, never written as a character)
                    _ => fmt_imm(*n as i32, match pick_radix(*n as i32, st, rng) { Radix::Char => Radix::Dec, r => r }, false),
                };
                let (c0, c1) = lb.push(&t);
                ops.push(OpPrint { role: Role::Csr, c0, c1, text: t });
                last = c1;
            }
            Op::M(off, base) => {
                if !(*off == 0 && rng.chance(st.p_omit_zero)) {
                    let t = fmt_imm(*off, pick_radix(*off, st, rng), false);
                    let (c0, c1) = lb.push(&t);
                    ops.push(OpPrint { role: Role::Imm, c0, c1, text: t });
                }
                lb.push("(");
                let t = reg_name(*base, st, rng);
                let (c0, c1) = lb.push(&t);
                let role = if matches!(i, Ins::Jalr { .. }) { Role::Rs1 } else { Role::Base };
                ops.push(OpPrint { role, c0, c1, text: t });
                let (_, c) = lb.push(")");
                last = c;
            }
        }
    }
    InsPrint { line, mn, mn_text, ops, full: (mn.0, last), spelling: spelling.name }
}

pub fn print(p: &Program, st: &Style, rng: &mut Rng) -> Printed {
    let mut out: Vec<String> = Vec::new();
    let mut ins = Vec::new();
    let mut line_to_ins = HashMap::new();
    let mut line_of_src = Vec::with_capacity(p.lines.len());
    let mut label_defs = HashMap::new();
    if st.header {
        out.push("# generated by rvmon".to_string());
    }
    let mut k = 0;
    let n = p.lines.len();
    let mut idx = 0;
    while idx < n {
        let l = &p.lines[idx];
        if rng.chance(st.p_blank_line) && !out.is_empty() {
            out.push(String::new());
        }
        if rng.chance(st.p_comment_line) {
            out.push((*rng.pick(&COMMENTS)).to_string());
        }
        let indent_kind = if st.indent == 9 { rng.below(4) as u8 } else { st.indent };
        let indent = match indent_kind {
            0 => "    ",
            1 => "\t",
            2 => "",
            _ => "  ",
        };
        let mut lb = LineBuf::new();
        let line_no = out.len();
        line_of_src.push(line_no);
        match l {
            Line::Label(name) => {
                let (c0, c1) = lb.push(name);
                lb.push(":");
                label_defs.insert(name.clone(), (line_no, c0, c1));
                // optionally put the following instruction on the same line
                if idx + 1 < n && rng.chance(st.p_label_inline) {
                    if let Line::Ins(i) = &p.lines[idx + 1] {
                        lb.push(" ");
                        let ip = print_ins(i, st, rng, &mut lb, line_no);
                        ins.push(ip);
                        line_to_ins.insert(line_no, k);
                        k += 1;
                        idx += 1;
                        line_of_src.push(line_no);
                    }
                }
            }
            Line::Ins(i) => {
                lb.push(indent);
                let ip = print_ins(i, st, rng, &mut lb, line_no);
                ins.push(ip);
                line_to_ins.insert(line_no, k);
                k += 1;
            }
            Line::SecData => {
                lb.push(".data");
            }
            Line::SecText => {
                lb.push(".text");
            }
            Line::Data(d) => {
                lb.push(indent);
                match d {
                    Data::Word(v) | Data::Half(v) | Data::Byte(v) => {
                        lb.push(match d {
                            Data::Word(_) => ".word",
                            Data::Half(_) => ".half",
                            _ => ".byte",
                        });
                        for (j, x) in v.iter().enumerate() {
                            lb.push(if j == 0 { " " } else { ", " });
                            lb.push(&fmt_imm(*x, pick_radix(*x, st, rng), false));
                        }
                    }
                    Data::Space(nb) => {
                        lb.push(&format!(".space {nb}"));
                    }
                    Data::Asciz(s) => {
                        // the AST holds the real content; special characters are written as escapes
                        let mut esc = String::new();
                        for ch in s.chars() {
                            match ch {
                                '\n' => esc.push_str("\\n"),
                                '\t' => esc.push_str("\\t"),
                                '\0' => esc.push_str("\\0"),
                                '\\' => esc.push_str("\\\\"),
                                '"' => esc.push_str("\\\""),
                                c => esc.push(c),
                            }
                        }
                        lb.push(&format!(".asciz \"{esc}\""));
                    }
                }
            }
            Line::Comment(c) => {
                lb.push(&format!("#{c}"));
            }
            Line::Blank => {}
            Line::Raw(r) => {
                lb.push(r);
            }
        }
        let is_code = matches!(l, Line::Ins(_) | Line::Label(_));
        if is_code && rng.chance(st.p_trailing_comment) {
            lb.push(if rng.chance(0.5) { "  " } else { " " });
            let c: &str = COMMENTS[rng.below(COMMENTS.len())];
            lb.push(c);
        }
        out.push(lb.s);
        idx += 1;
    }
    let mut text = out.join("\n");
    if st.trailing_newline {
        text.push('\n');
    }
    Printed { text, ins, line_to_ins, line_of_src, label_defs }
}

/// Plain, deterministic rendering (header comment, pseudo spellings, ABI names).
pub fn print_plain(p: &Program) -> Printed {
    let mut rng = Rng::new(0);
    print(p, &Style::plain(), &mut rng)
}
