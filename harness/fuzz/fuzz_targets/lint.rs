//! C06, coverage-guided tier: any bytes that are UTF-8 are linted through the editor entry point
//! `RVParser::run` with an in-memory reader (the input may `.include` itself as "main.s" and one
//! fixed second file). A panic, an abort or a stack overflow is a crash for libFuzzer.
#![no_main]
use libfuzzer_sys::fuzz_target;
use riscv_analysis::parser::RVParser;
use riscv_analysis::reader::{FileReader, FileReaderError};
use std::collections::HashMap;
use uuid::Uuid;

#[derive(Clone)]
struct Mem {
    text: String,
    ids: HashMap<Uuid, &'static str>,
    base: Option<Uuid>,
}

const OTHER: &str = "helper:\n    addi a0, a0, 1\n    ret\n";

impl FileReader for Mem {
    fn import_file(&mut self, path: &str, _parent: Option<Uuid>) -> Result<(Uuid, String), FileReaderError> {
        let (name, text) = match path {
            "main.s" => ("main.s", self.text.clone()),
            "other.s" => ("other.s", OTHER.to_string()),
            _ => return Err(FileReaderError::InternalFileNotFound),
        };
        let id = Uuid::new_v4();
        self.base.get_or_insert(id);
        self.ids.insert(id, name);
        Ok((id, text))
    }
    fn get_text(&self, uuid: Uuid) -> Option<String> {
        self.ids.get(&uuid).map(|n| if *n == "main.s" { self.text.clone() } else { OTHER.to_string() })
    }
    fn get_filename(&self, uuid: Uuid) -> Option<String> {
        self.ids.get(&uuid).map(|n| (*n).to_string())
    }
    fn get_base_file(&self) -> Option<Uuid> {
        self.base
    }
}

fuzz_target!(|data: &[u8]| {
    if let Ok(text) = std::str::from_utf8(data) {
        let mut p = RVParser::new(Mem { text: text.to_string(), ids: HashMap::new(), base: None });
        let _ = p.run("main.s");
    }
});
