#!/bin/bash
# usage: tools/seedtest.sh <seed-id> <property> [more properties...]
#   seed ids of the second / third / fourth round end in "b" / "c" / "d" / "e" (C07b): their source directory is /tmp/seed2/C07, /tmp/seed3/C07
# Takes /verif/seeded/<id>/patch.diff (or /tmp/seed/<id>/, copied on first use), applies it to a fresh
# scratch worktree of /repo's HEAD, confirms that the existing tests still pass and that the
# demonstration fails with the change and passes without it, then runs the registered checks against
# the changed checkout (VERIF_REPO). /repo itself is never touched. The worktree is removed afterwards.
set -u
ID=$1; shift
OUT=/verif/seeded/$ID
mkdir -p $OUT
SRC=/tmp/seed/$ID
case $ID in *b) SRC=/tmp/seed2/${ID%b};; *c) SRC=/tmp/seed3/${ID%c};; *d) SRC=/tmp/seed4/${ID%d};; *e) SRC=/tmp/seed5/${ID%e};; esac
if [ ! -f $OUT/patch.diff ] && [ -d $SRC ]; then cp -r $SRC/* $OUT/; rm -rf $OUT/scratch $OUT/target; fi
WT=/tmp/wt/run_$ID
git -C /repo worktree remove --force $WT 2>/dev/null
git -C /repo worktree add -q --detach $WT HEAD || exit 2
cd $WT || exit 2
# a seed whose context was changed by a later fix carries the same change re-made on the newer tree
PATCH=$OUT/patch.diff
[ -f $OUT/patch_rebased.diff ] && PATCH=$OUT/patch_rebased.diff
if ! git apply $PATCH; then echo "PATCH DOES NOT APPLY to current HEAD"; git -C /repo worktree remove --force $WT; exit 3; fi
echo "== patch: $(git diff --stat | tail -1)"
echo "== existing tests with the change"
CARGO_NET_OFFLINE=true cargo test --workspace --offline 2>&1 | grep -E "^test result" | awk '{p+=$4; f+=$6} END {print "passed", p, "failed", f}' | tee $OUT/tests.txt
CARGO_NET_OFFLINE=true cargo build --offline -q -p riscv_analysis_cli 2>/dev/null
if [ -f $OUT/demo.sh ]; then
  (cd $OUT && bash demo.sh $WT/target/debug/rva > demo_with_change.txt 2>&1; echo "demo with change: exit $?" | tee demo_result.txt)
  (cd $OUT && bash demo.sh /verif/target/repo/debug/rva > demo_unchanged.txt 2>&1; echo "demo on unchanged tree: exit $?" | tee -a demo_result.txt)
fi
cd /verif
for P in "$@"; do
  echo "== check $P against the change"
  VERIF_REPO=$WT ./check $P 2>&1 | grep -a -E "^(VIOLATION|SUMMARY|INCONCLUSIVE|KNOWN)" | cut -c1-400 | tee $OUT/check_$P.txt | tail -6
done
git -C /verif checkout -- evidence 2>/dev/null
git -C /repo worktree remove --force $WT
rm -rf /verif/target/harness-_tmp_wt_run_$ID /verif/target/repo-_tmp_wt_run_$ID /verif/target/manifests-_tmp_wt_run_$ID
