#!/usr/bin/env python3
"""Regenerate /verif/MANIFEST.json from the table below (keeps the manifest consistent)."""
import json, os

ROOT = os.path.dirname(os.path.dirname(os.path.abspath(__file__)))

CHECKS = {
 "C01": ("reference-machine monitor (concrete RV32IM execution vs. value claims)",
         "Every generated program (wild and conforming profiles incl. sp excursions, CSR statements, top-level frames; every 4th program from a directed family: stack slots carried around nested loops, CSR traffic with stale pointers and calls that rewrite the CSR, ecalls with numbers outside the table, functions that loop back to their own entry) is analysed by the real pipeline and executed on a reference RV32IM machine from random initial states; at each executed instruction every Constant/Address/entry+const register claim and every stack-slot claim (in and out) is compared with the machine state of the current activation. Silence means: held on the executions observed (counts in the evidence), not for all programs.",
         "Trusts the reference machine (written from the ISA spec), the line-based join of instructions to graph nodes, and the generator's coverage of the supported subset."),
 "C02": ("dynamic def-use chain monitor + independent least-fixed-point reference solver",
         "(a) on executions of generated programs (including CSR read/write/set instructions and branches into functions), every register read is traced back to its dynamic definition and every executed node in between must list the register as live; inferred argument/return registers and `Unused value` warnings are checked against what executions read; (b) live_in/live_out of every node are compared with the least solution of the documented equations computed by an independent worklist solver; (c) the constants of those equations - what each ordinary instruction reads and overwrites, and that uret reads every register - are compared with the harness's own decoding.",
         "Part (b) takes the analyzer's gen/kill sets and ecall table as the documented constants (part (c) checks those of ordinary instructions and uret); part (a) models calls/ecalls as the calling convention says."),
 "C03": ("static edge-legality monitor + dynamic executed-transfer monitor",
         "Static: successor/predecessor sets are inverse, every edge is a fall-through, a jump to the written label or a return merge, exit ecalls have no successors (also ecalls whose exit number is inherited through a jump around another exit, and shared tails). Dynamic: every control transfer executed by the reference machine inside an activation is an edge and no executed instruction is reported unreachable.",
         "Trusts the reference machine and the node join; only executed transfers are required to be edges."),
 "C04": ("conforming-by-construction generator + dynamic convention monitor, oracle = no diagnostics",
         "Programs that follow the calling convention by construction (random call graphs incl. recursion, nesting, frames, saved-register subsets, ecalls, early returns, error-exit blocks behind the epilogue, functions before or after main, any surface style) and that the dynamic convention monitor confirms on 3 executions must get zero diagnostics. Also: frames of 2-64 KiB built through lui/li, top-level code with a frame of its own, data islands between functions, ecall numbers passed through a register, 25 RARS services.",
         "A generator bug could look like a false positive; the dynamic convention monitor is the second, independent premise check (a failed premise is never a violation)."),
 "C05": ("fault injection into clean programs, oracle = expected diagnostic kind at the planted site",
         "15 violation classes are planted one at a time into programs that are clean in the same run; a diagnostic of the expected kind must sit on the offending instruction/operand (label for fall-through; entry or related jump for jump-to-function); every 4th case is judged inside an include tree (file and file-relative line must be those of the offending text); a planted read of an unassigned register may have an innocent sibling (assigned, then read, on the other arm) which must not be reported.",
         "Expected-kind table is part of the design; collateral diagnostics of other kinds are allowed."),
 "C06": ("crash/hang monitor: child processes with address-space limit, watchdog and sweep-limit hook; rustc overflow-check sanitizer build; thorough tier adds coverage-guided fuzzing (cargo-fuzz/libFuzzer, AddressSanitizer build)",
         "Hostile inputs (random Unicode, token soup over the analyzer's vocabulary, mutated programs, structurally extreme inputs in a scaling series up to 64 KiB) are linted through RVParser::run in worker children in the checked and release builds of the harness, and a sample through `rva lint` in every output mode (dev and release binaries); on-disk includes of things that are no regular files (devices that never end, a pipe without writer, directories, dangling and circular symbolic links, over-long and empty names) and file names that are not UTF-8 run under an address-space limit with the peak resident set measured; C08's folding tables and 4x semantic mutants per iteration are linted as well. Panics, deaths by signal (stack overflow, abort), exceeded sweep limits and watchdog expiry are the refuting events; sweep counts of the scaling series are recorded. The thorough tier then fuzzes RVParser::run with libFuzzer (16 forked jobs, 600 s, seed corpus from the generators); every artifact is re-run alone and counts only if the panic / abort / stack overflow / 60 s timeout reproduces.",
         "Polynomial time is restated as bounded sweep counters plus a recorded scaling series; a finite run cannot establish an asymptotic bound."),
 "C15": ("differential monitor (split vs. pasted) + fault injection at the FileReader seam + on-disk include graphs through the CLI",
         "Programs are cut into include trees (depth 1-3, sub-directories, 40 % with one file included two or three times) and must get the diagnostics of the pasted file, attributed to the right file and file-relative line; the CLI must select base-file items and announce the right count; injected reader faults (not found, IO, internal) must give exactly one error on the directive and leave the rest as with the directive blanked; self-/cyclic includes must terminate with an error for three reader policies in memory and on disk; 15 % of the programs use undefined labels (the error must name the same use in every arrangement).",
         "Cuts are at line boundaries only."),
 "C18": ("differential monitor across output channels (library vs. pretty / compact / JSON, colour, file selection)",
         "For file sets with lints, parse errors and analysis errors, single- and multi-file, the lists (severity, title, file, line, columns) from RVParser::run and from the rva binary in pretty, --compact and --json with/without --no-color and --all-files must be equal per file selection, sorted, JSON of the documented shape, free of escapes under --no-color, with the right other-files count, one severity per kind, and every pretty excerpt must show the right line with the marker under the reported columns (the shown text is looked up in the source line; file kinds include odd leading white space, tabs and CR/LF).",
         "Only what a format prints is compared."),
 "C19": ("round-trip and injectivity monitor over the serde dump (value space enumerated, graphs sampled)",
         "Every AvailableValue / MemoryLocation variant with boundary payloads, register sets and maps are dumped (serde_yaml), reloaded and compared, and distinct values must have distinct dumps; whole-graph dumps of generated programs must reload and re-dump identically, fact-different one-instruction mutants must have different dumps; a decoder rebuilds every field (edges, liveness, facts, labels, per-node (entry, exit) pairs of its functions) from the dump and compares it with the analysis; also through `rva lint --yaml`; checked and release builds.",
         "Sets emitted as lists are compared as sets (the order of a node's function list in the dump follows hash order and is not part of the claim)."),
 "C07": ("mutation workload + coverage/containment oracle over parser executions",
         "One line of a one-statement-per-line file is replaced by a malformed one (21 defect kinds incl. directives without operands, statements cut after any token, stray tokens in data lists, label definitions as operands, dots that start no directive, macros that are never closed; first/middle/last/two consecutive lines), plus whole-file CR/LF endings and a final line truncated after each token with/without newline. Every non-blank line must yield a node starting on it or a parse error located on it, a line that certainly contains a non-token must carry an error, and all other lines must parse exactly as when the bad line is blank.",
         "Trusts the harness's classification of which lines carry content."),
 "C09": ("reference-model monitor for positions over lexer/parser/diagnostic executions",
         "Every token of the real lexer, every parsed node, every parse error and diagnostic of programs printed in 9 layouts (header, first line, leading blank lines, styled, two statements per line, included files, no final newline, CR/LF and mixed line endings) plus directed files whose first statement starts at offset 0 is checked against an independent line/column/raw model: mutually consistent, inside the file, on one line, and the slice is exactly the token / statement / register named.",
         "Inclusive-end, char-indexed convention taken from the repository's golden JSON files."),
 "C11": ("reference-model monitor at the quiescent point after gen_full_cfg",
         "Call targets computed from the harness AST and reachable sets computed by BFS over the observed successor edges are compared with the function map, node lists, owner lists and exits of the finished graph for hand-written shapes (aliases, interleaved bodies, shared tails, fall-through entry, recursion, dead callers, multiple returns, interrupt handlers, a function in the data segment, a return through a temporary) and generated programs; the names of a function must be exactly the labels on its first instruction (no data labels); sharing must be reported exactly when it exists.",
         "Programs whose analysis fails are excluded (C16)."),
 "C16": ("failure-shape workload + oracle on the reported error (kind, file, range, text) and on default CLI visibility",
         "Programs that parse but may be impossible to analyse (undefined / duplicate labels, labels without instruction, functions without return, returns outside functions, calls into data, label-only files, the same split into included files) must produce a specific error located on a real label in a user file and visible in the default CLI output, never Unexpected/Assertion errors; a reference model of label hygiene (every definition and use in the program text, incl. loads / stores that name a label) demands a label error whenever a label is duplicated or undefined, and an error whenever a jump, branch or call names a label that no instruction follows.",
         "When several labels are undefined any one may be the location."),
 "C08": ("reference-machine differential monitor + rustc overflow-check sanitizer build",
         "Every mnemonic x operand form (each also at the end of a file, in front of a comment and behind a label) is parsed by the real parser and the decoded nodes are executed on the reference machine against the official expansion from boundary and random states; and, as table 4, the same boundary grid is run through the whole analysis (`li; li; op` with register, zero-register and immediate operands): every constant the analysis claims must be the RV32IM value; MathOp::operate is compared with a reference ALU on a complete 24x24 boundary grid per operator plus random pairs, in the checked (overflow-checks) and release builds.",
         "Trusts the harness's reference ALU/expansion tables (from the ISA and assembler manuals)."),
 "C10": ("repeated-execution monitor over hash-order schedules (fresh threads and separate processes)",
         "The same file sets are linted repeatedly in fresh threads (RVParser::run and the staged route) and as separate rva processes in every output mode; all results must be identical sequences and contain no two equal items (also for directed families: a never-assigned register first read behind the join of several paths; several plain jumps into one function; code shared by two functions). The evidence reports how many distinct hash orders were actually seen.",
         "Only the hash orders that occurred are covered."),
 "C12": ("extra-pass-run history monitor + sweep-counter hook",
         "Generated programs, trap handlers, shared tails, loop-carried stack slots, exit ecalls with inherited numbers, mazes of ecalls whose exit numbers only become known after earlier exits are cut (up to 6 levels), files included twice, and semantic mutants (valid programs with retargeted jumps, stack-pointer games, reserved label names): after gen_full_cfg a canonical snapshot of all facts is taken through public getters; a fixed-point loop that exceeds the sweep limit is reported as non-termination; random sequences of extra AvailableValue/EcallTermination/Liveness runs must leave snapshot and diagnostics unchanged; the same parsed program analysed twice must give the same facts; the verif-hooks sweep counters must stay under a linear bound (a sweep limit turns non-termination into an observable event).",
         "Extra pass runs are applied in random order and number; only histories of up to 6 extra runs are explored."),
 "C13": ("metamorphic monitor: surface rewrites of the same AST",
         "Each program (generated, or the boundary-literals family) is printed in the base-ISA style and under 18 single-feature rewrites plus random compositions; the multisets of (kind, instruction index, register concerned) must be equal. Also: `li` against its lui/addi expansion (diagnostics identified by logical statement) and layouts of data lists that continue over several lines (comments and blank lines in between).",
         "Diagnostics are identified by instruction index and register, not by columns (positions are C09's subject)."),
 "C14": ("metamorphic monitor: label renaming and register permutation",
         "Labels are renamed injectively (sometimes to names that look like the analyzer's internal ones) and t0-t6 / s0-s11 permuted consistently (hand-written shapes incl. trap handlers and refused programs get every rotation of each class); the renamed program must get exactly the original diagnostics (kind, place, register) with registers mapped through the permutation, and the same wording with the names mapped.",
         "Argument registers are not permuted."),
 "C17": ("reference-model monitor over front-end executions + rustc overflow-check sanitizer build",
         "Every boundary magnitude in decimal/hex/binary with both signs, letter cases and zero padding, character literals incl. \\u escapes, malformed spellings (numbers and character literals) and random 32-bit values are pushed through the real lexer+parser in 10 operand contexts (incl. jalr and store offsets; lui operands judged on the 32-bit reading and the 20-bit field); value, acceptance, error location and panics are compared with a denotation model, in checked and release builds.",
         "Trusts the harness's denotation model; boundary sub-space enumerated completely, the rest sampled."),
}

 # placeholder
NOT_YET = {
}

def main():
    hooks_commits = ["c15f1bf", "2e386a3", "148fea1"]
    checks = []
    for pid in sorted(CHECKS):
        tech, text, note = CHECKS[pid]
        checks.append({
            "property_id": pid,
            "quick_cmd": f"./check {pid} --tier quick",
            "thorough_cmd": f"./check {pid} --tier thorough",
            "evidence_file": f"evidence/{pid}.json",
            "replay_cmd_template": f"./check {pid} --replay {{path}}",
            "engine": "rvmon",
            "level_claimed": {"category": "exploration", "text": text, "design_ref": f"DESIGN.md section 4, {pid}"},
            "level_note": note,
            "technique": tech,
        })
    m = {
        "version": 1,
        "setup_cmd": "./check --setup",
        "hooks": {
            "guard": "cargo feature `verif-hooks` of crate riscv_analysis (off by default)",
            "enable": "the harness crate /verif/harness depends on /repo/riscv_analysis with features=[\"verif-hooks\"]; the rva binary is built without it",
            "baseline_off_cmd": "cd /repo && cargo test --workspace --no-fail-fast --offline",
            "source_commits": hooks_commits,
            "add_only": True,
        },
        "engines": [{
            "name": "rvmon", "path": "harness", "serves_properties": sorted(CHECKS),
            "kind_free_text": "Rust harness linking the real riscv_analysis library (feature verif-hooks): program generators, RV32IM reference machine, reference models, metamorphic/differential/crash monitors; drives the real rva binary (dev and release profile) as subprocesses for CLI properties",
        }],
        "checks": checks,
        "not_applicable": [{"property_id": p, "reason": r} for p, r in sorted(NOT_YET.items()) if p not in CHECKS],
        "notes": "All checks rebuild and run the real code from /repo's current working tree (cargo change detection). Exit 0 held on everything observed / 1 violation (VIOLATION line) / 2 inconclusive (never reported as a violation). Known findings: known_findings.json.",
    }
    json.dump(m, open(os.path.join(ROOT, "MANIFEST.json"), "w"), indent=1)
    print("wrote MANIFEST.json with", len(checks), "checks")

if __name__ == "__main__":
    main()
